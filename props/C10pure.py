"""C10 (pure-lattice part) - poloidal spacing functions.

E3-pure: the spacing-function constructors of ``EquilibriumRegion`` are driven through a real
region object (built as the repository's own tests build one) over explicitly stated
lattices; nothing is sampled.

D  direct constructor calls ``getSqrtPoloidalDistanceFunc`` (parameter patterns of the kinds
   wall.X, X.wall, X.X, wall.wall and the unconstrained-target variants),
   ``getMonotonicPoloidalDistanceFunc`` (convex and concave branch and the points around its
   1e-8 switch), ``getLinearPoloidalDistanceFunc``:  L x N x N_norm/N x 9-point ladder for
   each end parameter, plus a phase-shifted copy of the ladders selected by VERIF_SEED.
P  X-point joins: every pair (region ending at an X-point, region starting at one) with a
   common N_norm and the same X-point spacing parameter.
R  the same constructors reached through ``getSfuncFixedSpacing`` / ``combineSfuncs`` from
   option values (``getSpacings``, ``getTargetParameter``, ``N_norm_prefactor*ny_total``,
   ``_checkMonotonic``), orthogonal methods sqrt/monotonic/linear and the non-orthogonal
   combinations with and without an orthogonal spacing function (the weights).

Oracle (what the property states, nothing more):
* s(0) = 0 and s(N) = L;
* either the constructor or the run-time guard ``_checkMonotonic`` refuses, or s is strictly
  increasing over the indices it is *used* for - the integers -2*guards..N+2*guards at wall
  ends, 0..N at X-point ends (``PsiContour.getRegridded`` evaluates the function nowhere
  else).  Folding strictly between integers is counted (it means the ny-doubled grid will be
  refused) but is not a violation;
* the end law in units of the normalised index iN = i/N_norm documented by the constructors:
  ds/diN -> a/sqrt(iN) + b at the lower end (mirrored at the upper end) with (a, b) =
  (xpoint spacing, 0) at an X-point and (0, target spacing) at a wall for ``sqrt``, (0, d)
  for ``monotonic`` and the combined functions, judged by a two-point fit at two step sizes;
* the same X-point parameter on both sides of an X-point gives the same spacing there.
"""

import contextlib
import io
import os
import warnings
from concurrent.futures import ProcessPoolExecutor

import numpy as np

LEVEL = "exploration"
EPS = float(np.finfo(float).eps)

L_LIST = [0.05, 1.0, 7.0]
N_LIST = [2, 3, 8, 40, 200]
RHO_LIST = [1, 2, 5, 17]  # N_norm / N
LADDER = [2.0**k for k in range(-4, 5)]  # 9 points, in units of the natural scale of the parameter
PHASES = [2.0 ** ((s + 0.5) / 8.0) for s in range(8)]  # sub-cell shifts (the ladder's cell is x2)
MONO_SWITCH = [1.0 - 2.0e-8, 1.0, 1.0 + 0.5e-8, 1.0 + 2.0e-8, 1.0 + 1.0e-6]
SWITCH = 1.0 + 1.0e-8
NEAR_SWITCH_HI = 1.0 + 2.0**-9
OVERSAMPLE = 16

# end-law fit: s(u) = 2 a sqrt(u) + b u + e u^2 + ..., u = iN measured from the end.  From
# s(u), s(4u):  b_est = (s(4u)-2 s(u))/(2u) = b + 7 e u,  a_est = (s(u)-b_est u)/(2 sqrt u)
# = a - 3 e u^1.5, with |e| <~ S/l for a function whose slope scale is S and which bends over
# the length l = T/max(1, b/m0) (T = N/N_norm the normalised length, m0 = L/T the mean
# slope).  So |b_est-b| <= CB S (u/l), |a_est-a| <= CA S sqrt(T) (u/l).  CB, CA: ten times
# the worst values observed on the lattice (see worst_law_*).
LAW_STEPS = [2.0**-12, 2.0**-20]
LAW_CB, LAW_CA = 600.0, 4.0
ROUND = 64.0  # evaluation noise: ROUND * eps * (L + magnitude of the function's terms)
END_REL = 5.0e-9


KINDS = ["wall.X", "X.wall", "X.X", "wall.wall", "wall.X/None", "X.wall/None"]


# ---- a real region object ---------------------------------------------------------------
def _quiet_pyplot():
    """_checkMonotonic plots before raising; replace the plotting calls by no-ops in this
    (checker) process - they cost 10 ms each and leak figures"""
    from matplotlib import pyplot

    for name in ("figure", "plot", "axhline", "legend", "show"):
        setattr(pyplot, name, lambda *a, **k: None)


_REGIONS = {}


def _region(L, ny, ny_total, kind, name, settings=None, nonorth=None, nx=None, cache=True):
    key = repr((L, ny, ny_total, kind, name, sorted((settings or {}).items()),
                sorted((nonorth or {}).items()), nx))
    if cache and key in _REGIONS:
        return _REGIONS[key]
    from hypnotoad.core.equilibrium import Equilibrium, EquilibriumRegion, Point2D

    class _E(Equilibrium):
        def __init__(self, settings, nonorth):
            self.user_options = Equilibrium.user_options_factory.add(
                refine_width=1.0e-5, refine_atol=2.0e-8
            ).create(settings)
            super().__init__(nonorth)

    with contextlib.redirect_stdout(io.StringIO()):
        eq = _E(dict(settings or {}), dict(nonorth or {}))
        eq.psi = lambda R, Z: R - Z
        n = 11
        c = L / np.sqrt(2.0) / (n - 1)
        pts = [Point2D(i * c, i * c) for i in range(n)]
        nx = list(nx or [1])
        reg = EquilibriumRegion(
            equilibrium=eq, name=name, nSegments=len(nx), nx=nx, ny=ny, kind=kind,
            ny_total=ny_total, points=pts, psival=0.0,
            Rrange=(-float("inf"), float("inf")), Zrange=(-float("inf"), float("inf")),
        )
    if cache:
        if len(_REGIONS) > 64:
            _REGIONS.clear()
        _REGIONS[key] = reg
    return reg


def _ev(f, x):
    return np.asarray(f(np.asarray(x, dtype=float)), dtype=float)


def _ev1(f, x):
    return float(_ev(f, [x])[0])


# ---- oracles shared by D and R -------------------------------------------------------------
def _law_fit(f, L, N, Nn, end, u):
    """two-point fit of s = 2 a sqrt(u) + b u at normalised distance u from the given end"""
    h = u * Nn
    if end == "lower":
        s0 = _ev1(f, 0.0)
        s1, s4 = _ev1(f, h) - s0, _ev1(f, 4.0 * h) - s0
    else:
        sN = _ev1(f, float(N))
        s1, s4 = sN - _ev1(f, N - h), sN - _ev1(f, N - 4.0 * h)
    b_est = (s4 - 2.0 * s1) / (2.0 * u)
    a_est = (s1 - b_est * u) / (2.0 * np.sqrt(u))
    return a_est, b_est


def _law_tol(S, T, R, u, step):
    return (LAW_CA * S * np.sqrt(T) * step + 2.5 * R / (2.0 * np.sqrt(u)),
            LAW_CB * S * step + 3.0 * R / (2.0 * u))


def _law_check(f, L, N, Nn, laws, magnitude, sig_prefix, cls, viol, worst, ell_cap=None):
    """laws: {'lower': (a, b) or None, 'upper': (a, b) or None}.  The law is asymptotic: the
    fit is made at two step sizes, the residual must be within tolerance at the smaller one
    (and is recorded at both, which shows the linear convergence)."""
    fam = "_" + sig_prefix.split(" | ")[0].replace(" ", "_")
    T = N / float(Nn)
    m0 = L / T
    S = max([m0] + [abs(v) for lw in laws.values() if lw for v in (lw[1], lw[0] / np.sqrt(T))])
    R = ROUND * EPS * (L + magnitude)
    for end, lw in laws.items():
        if lw is None:
            continue
        a, b = lw
        ell = T / max(1.0, b / m0)
        if ell_cap is not None:
            ell = min(ell, ell_cap)
        for step in LAW_STEPS:
            u = ell * step
            a_est, b_est = _law_fit(f, L, N, Nn, end, u)
            ta, tb = _law_tol(S, T, R, u, step)
            eb, ea = abs(b_est - b), abs(a_est - a)
            worst("law_CB_observed" + fam + cls[1], max(eb - 3.0 * R / (2.0 * u), 0.0) / (S * step))
            worst("law_CA_observed" + fam + cls[1],
                  max(ea - 2.5 * R / (2.0 * np.sqrt(u)), 0.0) / (S * np.sqrt(T) * step))
            if step != LAW_STEPS[-1]:
                continue
            worst("law_b_residual_over_tolerance" + cls[1], eb / tb)
            worst("law_a_residual_over_tolerance" + cls[1], ea / ta)
            if not (eb <= tb and ea <= ta):
                viol.append(("%s | end gradient law differs from the requested one | end=%s | %s"
                             % (sig_prefix, end, cls[0]),
                             dict(step_iN=u, a_fit=a_est, b_fit=b_est, a_requested=a,
                                  b_requested=b, tol_a=ta, tol_b=tb)))
                break


def _ends_check(f, L, N, magnitude, sig_prefix, cls, viol, worst):
    # closed forms reach L to rounding; the concave monotonic form through a root solve whose
    # tolerance (1e-10 relative in its parameter) is granted: 5e-9 L, measured worst 3.1e-12 L.
    # (PsiContour.getRegridded re-inserts the exact end points anyway.)
    tol = END_REL * L + 256.0 * EPS * (L + magnitude)
    s0, sN = _ev1(f, 0.0), _ev1(f, float(N))
    res = max(abs(s0), abs(sN - L))
    worst("end_value_residual_over_tolerance" + cls[1], res / tol)
    worst("end_value_residual_over_L" + cls[1], res / L)
    if not res <= tol:
        viol.append(("%s | s(0)=0, s(N)=L violated | %s" % (sig_prefix, cls[0]),
                     dict(s0=s0, sN=sN, L=L, tol=tol)))
        return False
    return True


def _used_indices(N, ext_lower, ext_upper):
    return np.arange(-ext_lower, N + ext_upper + 1, dtype=float)


# ==========================================================================================
# lattice D
# ==========================================================================================
def _sqrt_kw(kind, p, q, m0, anat):
    if kind == "wall.X":
        return dict(b_lower=p * m0, a_lower=None, a_upper=q * anat, b_upper=0.0)
    if kind == "X.wall":
        return dict(a_lower=p * anat, b_lower=0.0, b_upper=q * m0, a_upper=None)
    if kind == "X.X":
        return dict(a_lower=p * anat, b_lower=0.0, a_upper=q * anat, b_upper=0.0)
    if kind == "wall.wall":
        return dict(b_lower=p * m0, a_lower=None, b_upper=q * m0, a_upper=None)
    if kind == "wall.X/None":
        return dict(b_lower=None, a_lower=None, a_upper=q * anat, b_upper=0.0)
    if kind == "X.wall/None":
        return dict(a_lower=p * anat, b_lower=0.0, b_upper=None, a_upper=None)
    raise ValueError(kind)


def direct_cases(seed):
    ph = PHASES[seed % 8]
    ladders = [("base", LADDER), ("phase%d" % (seed % 8), [v * ph for v in LADDER])]
    cases = []
    for L in L_LIST:
        for N in N_LIST:
            cases.append(dict(fn="linear", L=L, N=N, Nn=N, tag="base"))
            for rho in RHO_LIST:
                Nn = N * rho
                cases.append(dict(fn="sqrt", kind="none", L=L, N=N, Nn=Nn, p=None, q=None, tag="base"))
                for tag, lad in ladders:
                    for kind in KINDS:
                        for p in (lad if kind != "wall.X/None" else [None]):
                            for q in (lad if kind != "X.wall/None" else [None]):
                                cases.append(dict(fn="sqrt", kind=kind, L=L, N=N, Nn=Nn, p=p, q=q,
                                                  tag=tag))
                    mono = list(lad) + (MONO_SWITCH if tag == "base" else [])
                    for p in mono:
                        for q in mono:
                            cases.append(dict(fn="monotonic", L=L, N=N, Nn=Nn, p=p, q=q, tag=tag))
    return cases


def _mono_class(p, q):
    mean = 0.5 * (p + q)
    if mean <= SWITCH:
        return ("convex branch", "")
    if mean <= NEAR_SWITCH_HI:
        return ("just above the branch switch", "_just_above_switch")
    return ("concave branch", "")


def run_direct_case(case):
    viol = []
    st = dict(refused=0, guard_refused=0, nontrivial=0, unguardable=0, fold_between=0, worst={},
              refused_class=None)

    def worst(key, val):
        if val == val and val > st["worst"].get(key, 0.0):
            st["worst"][key] = float(val)

    L, N, Nn = case["L"], case["N"], case["Nn"]
    T = N / float(Nn)
    m0 = L / T
    anat = L / (2.0 * np.sqrt(T))
    reg = _region(1.0, max(N // 2, 1), max(N // 2, 1), "wall.wall", "inner")
    fn = case["fn"]
    try:
        if fn == "linear":
            f = reg.getLinearPoloidalDistanceFunc(L, N)
            # linear in the index itself: in units of iN = i/N_norm with N_norm = N the slope is L
            laws = dict(lower=(0.0, L), upper=(0.0, L))
            magnitude = 0.0
            cls = ("linear", "")
            sig = "direct linear"
        elif fn == "sqrt":
            kind = case["kind"]
            if kind == "none":
                kw = {}
                laws = dict(lower=(0.0, m0), upper=(0.0, m0))
            else:
                kw = _sqrt_kw(kind, case["p"], case["q"], m0, anat)
                laws = dict(
                    lower=None if kw["b_lower"] is None else (kw["a_lower"] or 0.0, kw["b_lower"]),
                    upper=None if kw["b_upper"] is None else (kw["a_upper"] or 0.0, kw["b_upper"]),
                )
            f = reg.getSqrtPoloidalDistanceFunc(L, N, Nn, **kw)
            magnitude = (2.0 * ((kw.get("a_lower") or 0.0) + (kw.get("a_upper") or 0.0)) * np.sqrt(T)
                         + ((kw.get("b_lower") or 0.0) + (kw.get("b_upper") or 0.0)) * T)
            cls = ("kind=%s" % kind, "")
            sig = "direct sqrt"
        else:
            dl, du = case["p"] * m0, case["q"] * m0
            cls = _mono_class(case["p"], case["q"])
            f = reg.getMonotonicPoloidalDistanceFunc(L, N, Nn, d_lower=dl, d_upper=du)
            laws = dict(lower=(0.0, dl), upper=(0.0, du))
            magnitude = (dl + du) * T
            sig = "direct monotonic"
    except Exception as e:  # noqa: BLE001
        st["refused"] = 1
        st["refused_class"] = "%s | %s | %s" % (fn, type(e).__name__, str(e)[:45])
        return dict(viol=viol, stats=st)
    st["cls"] = cls[0]
    # ---- end values and end laws: promised whether or not the function is monotone --------
    ok = _ends_check(f, L, N, magnitude, sig, cls, viol, worst)
    if ok:
        _law_check(f, L, N, Nn if fn != "linear" else N, laws, magnitude, sig, cls, viol, worst)
    # ---- monotone where it is used, or refused ---------------------------------------------
    idx = _used_indices(N, 0, 0)
    vals = _ev(f, idx)
    increasing = bool(np.all(np.isfinite(vals)) and np.all(np.diff(vals) > 0.0))
    if N % 2 == 0:
        reg.ny_noguards = N // 2
        reg.extend_lower = reg.extend_upper = 0
        try:
            with contextlib.redirect_stdout(io.StringIO()):
                reg._checkMonotonic([(f, "direct")], total_distance=L)
            guard = False
        except ValueError:
            guard = True
        if guard:
            st["guard_refused"] = 1
            if increasing:
                viol.append(("%s | run-time guard refuses a strictly increasing function | %s"
                             % (sig, cls[0]), dict(values=vals)))
        elif not increasing:
            tie = bool(np.all(np.isfinite(vals)) and np.all(np.diff(vals) >= 0.0))
            viol.append(("%s | neither refused nor strictly increasing at the used indices | %s | %s"
                         % (sig, "tie (equal consecutive values)" if tie else "decreasing", cls[0]),
                         dict(values=vals)))
    elif not increasing:
        st["unguardable"] = 1  # odd N cannot be reached through a region (N = 2*ny)
    if increasing:
        fine = _ev(f, np.arange(0, OVERSAMPLE * N + 1) / float(OVERSAMPLE))
        if not np.all(np.diff(fine) > 0.0):
            st["fold_between"] = 1
        st["nontrivial"] = 1
    return dict(viol=viol, stats=st)


# ==========================================================================================
# lattice P: X-point joins
# ==========================================================================================
def pair_cases():
    cases = []
    for method in ("sqrt", "monotonic"):
        for LA in L_LIST:
            for NA in N_LIST:
                for LB in L_LIST:
                    for NB in N_LIST:
                        for rho in (1, 5):
                            for x in LADDER:
                                for kinds in (("wall.X", "X.wall"), ("X.X", "X.X"),
                                              ("wall.X", "X.X"), ("X.X", "X.wall")):
                                    cases.append(dict(method=method, LA=LA, NA=NA, LB=LB, NB=NB,
                                                      Nn=max(NA, NB) * rho, x=x, kinds=kinds))
    return cases


def run_pair_case(case):
    """x is given in units of the smaller of the two regions' natural scales, so that both
    sides are in a comparable regime; the same absolute value is passed to both sides."""
    viol = []
    st = dict(refused=0, nontrivial=0, worst={})
    Nn = case["Nn"]
    reg = _region(1.0, 1, 1, "wall.wall", "inner")
    sides = []
    TA, TB = case["NA"] / float(Nn), case["NB"] / float(Nn)
    if case["method"] == "sqrt":
        xabs = case["x"] * min(case["LA"] / (2.0 * np.sqrt(TA)), case["LB"] / (2.0 * np.sqrt(TB)))
    else:
        xabs = case["x"] * min(case["LA"] / TA, case["LB"] / TB)
    for which, L, N, kind in (("A", case["LA"], case["NA"], case["kinds"][0]),
                              ("B", case["LB"], case["NB"], case["kinds"][1])):
        T = N / float(Nn)
        m0 = L / T
        try:
            if case["method"] == "sqrt":
                kw = dict(a_lower=None, b_lower=m0, a_upper=None, b_upper=m0)
                if kind.split(".")[0] == "X":
                    kw.update(a_lower=xabs, b_lower=0.0)
                if kind.split(".")[1] == "X":
                    kw.update(a_upper=xabs, b_upper=0.0)
                f = reg.getSqrtPoloidalDistanceFunc(L, N, Nn, **kw)
            else:
                dl = xabs if kind.split(".")[0] == "X" else m0
                du = xabs if kind.split(".")[1] == "X" else m0
                f = reg.getMonotonicPoloidalDistanceFunc(L, N, Nn, d_lower=dl, d_upper=du)
        except Exception:  # noqa: BLE001
            st["refused"] = 1
            return dict(viol=viol, stats=st)
        sides.append((f, L, N))
    # the end law fitted on the two sides of the X-point must be the same law: the fitted
    # coefficients agree within the sum of the two sides' fit tolerances (see LAW_*)
    (fa, LA, NA), (fb, LB, NB) = sides
    step = LAW_STEPS[-1]
    fits, means = [], []
    for f, L, N, kind, end in ((fa, LA, NA, case["kinds"][0], "upper"),
                               (fb, LB, NB, case["kinds"][1], "lower")):
        T = N / float(Nn)
        m0 = L / T
        if case["method"] == "sqrt":
            S = max(m0, xabs / np.sqrt(T))
            mag = 4.0 * xabs * np.sqrt(T) + 2.0 * L
            ell = T
        else:
            dl = xabs if kind.split(".")[0] == "X" else m0
            du = xabs if kind.split(".")[1] == "X" else m0
            means.append(0.5 * (dl + du) / m0)
            S = max(m0, dl, du)
            mag = (dl + du) * T
            ell = T / max(1.0, xabs / m0)
        u = ell * step
        a_est, b_est = _law_fit(f, L, N, Nn, end, u)
        ta, tb = _law_tol(S, T, ROUND * EPS * (L + mag), u, step)
        fits.append((a_est, b_est, ta, tb))
    (aA, bA, taA, tbA), (aB, bB, taB, tbB) = fits
    ra, rb = abs(aA - aB) / (taA + taB), abs(bA - bB) / (tbA + tbB)
    near = any(SWITCH < m <= NEAR_SWITCH_HI for m in means)
    suffix = "_just_above_switch" if near else ""
    st["worst"]["pair_law_mismatch_over_tolerance" + suffix] = max(ra, rb)
    want = xabs
    # how sharp the comparison is: pairs whose combined tolerance is below 1 % of the parameter
    st["sharp"] = int(((taA + taB) if case["method"] == "sqrt" else (tbA + tbB)) < 0.01 * want)
    if not (ra <= 1.0 and rb <= 1.0):
        viol.append(("pair | spacing differs across an X-point for the same parameter | method=%s%s"
                     % (case["method"], " | just above the branch switch" if near else ""),
                     dict(side_A_fit=dict(a=aA, b=bA), side_B_fit=dict(a=aB, b=bB), requested=want,
                          tol_a=taA + taB, tol_b=tbA + tbB)))
    st["nontrivial"] = 1
    return dict(viol=viol, stats=st)


# ==========================================================================================
# lattice R: through the region's option handling
# ==========================================================================================
R_KINDS = [("wall.X", "inner_lower_divertor"), ("wall.X", "outer_upper_divertor"),
           ("X.wall", "outer_lower_divertor"), ("X.wall", "inner_upper_divertor"),
           ("X.X", "core"), ("X.X", "inner_core"), ("wall.wall", "outer_lower_limiter")]
R_NY = {"quick": [1, 4, 100], "thorough": [1, 4, 20, 100]}
R_RHO = {"quick": [1, 5], "thorough": [1, 2, 5, 17]}
R_PREF = [1.0, 0.5]
R_GUARDS = {"quick": [0, 2], "thorough": [0, 1, 2]}
R_X = {"quick": [0.125, 1.0, 4.0], "thorough": [0.0625, 0.25, 1.0, 4.0, 16.0]}
R_T = {"quick": [None, 0.0625, 0.25, 1.0, 2.0], "thorough": [None, 0.0625, 0.25, 1.0, 2.0, 8.0]}
R_METHODS = ["sqrt", "monotonic", "linear"]
N_NY = [2, 10]  # non-orthogonal sub-lattice (each case builds a fine contour: 0.15 s)
N_RANGE = [0.02, 0.3, 3.0]  # nonorthogonal_*_poloidal_spacing_range in units of T
N_ORTH = ["linear", "sqrt", "square"]
N_XIND = [0, 4, -2]


def _leg(name):
    io_ = "inner" if "inner" in name else "outer"
    ul = "upper" if "upper" in name else "lower"
    return io_ + "_" + ul


def region_cases(tier):
    cases = []
    for kind, name in R_KINDS:
        for L in L_LIST:
            for ny in R_NY[tier]:
                for rho in R_RHO[tier]:
                    for pref in R_PREF:
                        for g in R_GUARDS[tier]:
                            for x in R_X[tier]:
                                for t in R_T[tier]:
                                    for method in R_METHODS:
                                        cases.append(dict(part="orth", kind=kind, name=name, L=L,
                                                          ny=ny, rho=rho, pref=pref, guards=g, x=x,
                                                          t=t, method=method))
    for kind, name in R_KINDS:
        for L in (0.05, 7.0):
            for ny in N_NY:
                for x, t in ((0.25, 0.5), (1.0, 2.0)):
                    for method in ("combined", "poloidal_orthogonal_combined", "orthogonal"):
                        cases.append(dict(part="nonorth_sep", kind=kind, name=name, L=L, ny=ny, rho=2,
                                          pref=1.0, guards=1, x=x, t=t, method=method))
                    for rng in N_RANGE:
                        for orth in N_ORTH:
                            for xind in N_XIND:
                                cases.append(dict(part="nonorth_weights", kind=kind, name=name, L=L,
                                                  ny=ny, rho=2, pref=1.0, guards=1, x=x, t=t,
                                                  range=rng, orth=orth, xind=xind))
    return cases


def run_region_case(case):
    viol = []
    st = dict(refused=0, nontrivial=0, fold_between=0, worst={}, refused_class=None)

    def worst(key, val):
        if val == val and val > st["worst"].get(key, 0.0):
            st["worst"][key] = float(val)

    kind, name, L, ny = case["kind"], case["name"], case["L"], case["ny"]
    N = 2 * ny
    ny_total = int(round(case["rho"] * N / case["pref"]))
    Nn = case["pref"] * ny_total  # documented: N_norm = N_norm_prefactor * ny_total
    T = N / float(Nn)
    m0 = L / T
    anat = L / (2.0 * np.sqrt(T))
    g = case["guards"]
    leg = _leg(name)
    lower_wall, upper_wall = kind.split(".")[0] == "wall", kind.split(".")[1] == "wall"
    ext_l, ext_u = (2 * g if lower_wall else 0), (2 * g if upper_wall else 0)
    part = case["part"]
    method = case["method"] if part != "nonorth_weights" else "weights"
    sqrt_like = part == "orth" and method == "sqrt"
    x = case["x"] * (anat if sqrt_like else m0)
    t = None if case["t"] is None else case["t"] * m0
    # the request is made leg-specific: target_all gets a decoy value, the leg's own option the
    # requested one, so a wrong inner/outer/upper/lower lookup shows
    settings = dict(y_boundary_guards=g, N_norm_prefactor=case["pref"],
                    xpoint_poloidal_spacing_length=x,
                    target_all_poloidal_spacing_length=None if t is None else 3.0 * t)
    if t is not None:
        settings["target_%s_poloidal_spacing_length" % leg] = t
    tn = t if t is not None else 1.7 * m0  # non-orthogonal target length cannot be None
    nonorth = {"nonorthogonal_xpoint_poloidal_spacing_length": x,
               "nonorthogonal_target_all_poloidal_spacing_length": 3.0 * tn,
               "nonorthogonal_target_%s_poloidal_spacing_length" % leg: tn}
    if part == "orth":
        settings.update(orthogonal=True, poloidal_spacing_method=method)
    else:
        settings.update(orthogonal=False)
        if part == "nonorth_sep":
            nonorth["nonorthogonal_spacing_method"] = method
            if method == "orthogonal":
                settings["poloidal_spacing_method"] = "monotonic"
        else:
            r = case["range"] * T
            nonorth["nonorthogonal_xpoint_poloidal_spacing_range"] = r
            nonorth["nonorthogonal_target_all_poloidal_spacing_range"] = r
    sig = "region %s | kind=%s" % (method, kind)
    try:
        with contextlib.redirect_stdout(io.StringIO()):
            if part == "nonorth_weights":
                # one region (and its fine contour) serves all range/weight variants: the
                # non-orthogonal options are reset on it, as the repository's tests do
                reg = _region(L, ny, ny_total, kind, name, settings, None, nx=[1, 2], cache=True)
                reg.resetNonorthogonalOptions(nonorth)
                reg.separatrix_radial_index = 1
                reg.global_xind = case["xind"]
                orth = {"linear": lambda i: L * i / N,
                        "sqrt": lambda i: L * np.sqrt(np.clip(i, 0.0, None) / N) + np.minimum(i, 0.0),
                        "square": lambda i: L * (np.clip(i, None, float(N)) / N) ** 2
                        + np.maximum(i - N, 0.0)}[case["orth"]]
                f = reg.combineSfuncs(reg, orth)
            else:
                reg = _region(L, ny, ny_total, kind, name, settings, nonorth, cache=False)
                f = reg.getSfuncFixedSpacing(2 * ny + 1, L)
    except Exception as e:  # noqa: BLE001
        st["refused"] = 1
        st["refused_class"] = "%s | %s | %s" % (method, type(e).__name__, str(e)[:45])
        return dict(viol=viol, stats=st)
    # ---- expected laws from the options ---------------------------------------------------
    if part == "orth" and method == "linear":
        laws = dict(lower=(0.0, m0), upper=(0.0, m0))
        magnitude = 0.0
    elif sqrt_like:
        laws = dict(lower=((0.0, t) if t is not None else None) if lower_wall else (x, 0.0),
                    upper=((0.0, t) if t is not None else None) if upper_wall else (x, 0.0))
        magnitude = 4.0 * x * np.sqrt(T) + 2.0 * (t or 0.0) * T
    else:
        if part == "nonorth_sep" and method in ("combined", "orthogonal"):
            # the orthogonal lengths fine-tune the separatrix spacing; a target length of None
            # falls back to the non-orthogonal one
            dl = (t if t is not None else tn) if lower_wall else x
            du = (t if t is not None else tn) if upper_wall else x
        else:
            # 'monotonic' reached any other way takes the non-orthogonal lengths
            dl = tn if lower_wall else x
            du = tn if upper_wall else x
        laws = dict(lower=(0.0, dl), upper=(0.0, du))
        magnitude = (dl + du) * T
        mean = 0.5 * (dl + du) / m0
    cls = ("-", "")
    if not sqrt_like and not (part == "orth" and method == "linear"):
        cls = _mono_class(mean, mean)
        cls = (cls[0], cls[1])
    ok = _ends_check(f, L, N, magnitude, sig, cls, viol, worst)
    if ok:
        # the weights switch from the fixed-spacing to the orthogonal function over 'range'
        _law_check(f, L, N, Nn, laws, magnitude, sig, cls, viol, worst,
                   ell_cap=case["range"] * T if part == "nonorth_weights" else None)
    # ---- strictly increasing over the used indices (guard cells included) ------------------
    idx = _used_indices(N, ext_l, ext_u)
    try:
        vals = _ev(f, idx)
    except Exception as e:  # noqa: BLE001
        st["refused"] = 1
        st["refused_class"] = "%s | at evaluation | %s | %s" % (method, type(e).__name__, str(e)[:40])
        return dict(viol=viol, stats=st)
    if not (np.all(np.isfinite(vals)) and np.all(np.diff(vals) > 0.0)):
        k = int(np.argmin(np.where(np.isfinite(np.diff(vals)), np.diff(vals), -np.inf)))
        where = "guard cells" if (idx[k] < 0 or idx[k + 1] > N) else "interior"
        if np.all(np.isfinite(vals)) and np.all(np.diff(vals) >= 0.0):
            where += " | tie (equal consecutive values)"
        elif not np.all(np.isfinite(vals)):
            where += " | non-finite"
        else:
            where += " | decreasing"
        viol.append(("%s | neither refused nor strictly increasing at the used indices | %s | %s"
                     % (sig, where, cls[0]),
                     dict(indices=idx, values=vals, first_bad=float(idx[k]))))
    else:
        fine = _ev(f, np.arange(0, OVERSAMPLE * N + 1) / float(OVERSAMPLE))
        if not np.all(np.diff(fine) > 0.0):
            st["fold_between"] = 1
        st["nontrivial"] = 1
    return dict(viol=viol, stats=st)


# ==========================================================================================
# driver
# ==========================================================================================
_KINDS = {"direct": run_direct_case, "pair": run_pair_case, "region": run_region_case}


def _run_chunk(args):
    kind, cases = args
    warnings.simplefilter("ignore")
    _quiet_pyplot()
    out = []
    with np.errstate(all="ignore"):
        for c in cases:
            out.append(_KINDS[kind](c))
    return out


def _chunks(kind, cases, size):
    return [(kind, cases[i:i + size]) for i in range(0, len(cases), size)]


def _report(ctx, kind, case, res):
    from vlib.core import HarnessError

    _quiet_pyplot()
    with np.errstate(all="ignore"):
        again = _KINDS[kind](case)
    if sorted(s for s, _ in again["viol"]) != sorted(s for s, _ in res["viol"]):
        raise HarnessError("C10pure: case does not reproduce: %r" % (case,))
    for sig, detail in res["viol"]:
        detail = dict(detail)
        detail["case"] = case
        ctx.violation(sig, detail, replay=dict(part="pure", kind=kind, case=case))


def run(ctx):
    warnings.simplefilter("ignore")
    seed = ctx.seed % 8
    dc = direct_cases(seed)
    pc = pair_cases()
    rc = region_cases(ctx.tier)
    rot = (seed * 7919) % max(1, len(rc))
    rc = rc[rot:] + rc[:rot]  # the seed permutes the work order of lattice R
    tasks = _chunks("region", rc, 60) + _chunks("pair", pc, 1500) + _chunks("direct", dc, 1500)
    nproc = min(16, os.cpu_count() or 1)
    results = []
    with ProcessPoolExecutor(max_workers=nproc) as ex:
        for (kind, cases), out in zip(tasks, ex.map(_run_chunk, tasks)):
            results.extend((kind, c, r) for c, r in zip(cases, out))
    refused_classes = {}
    n_nontrivial = 0
    for kind, case, res in results:
        st = res["stats"]
        for k, v in st["worst"].items():
            ctx.setmax("pure_worst_" + k, v)
        if res["viol"]:
            _report(ctx, kind, case, res)
        n_nontrivial += st["nontrivial"]
        ctx.add("pure_%s_cases" % kind)
        ctx.add("pure_%s_refused_by_constructor" % kind, st["refused"])
        if st.get("refused_class"):
            refused_classes[st["refused_class"]] = refused_classes.get(st["refused_class"], 0) + 1
        if kind == "direct":
            ctx.add("pure_direct_refused_by_runtime_guard", st["guard_refused"])
            ctx.add("pure_direct_nonmonotone_odd_N_unguardable", st["unguardable"])
        if kind == "pair":
            ctx.add("pure_pair_compared_to_better_than_1_percent", st.get("sharp", 0))
        if kind in ("direct", "region"):
            ctx.add("pure_%s_increasing_at_used_indices_but_folding_between" % kind,
                    st["fold_between"])
        if st["nontrivial"] and kind != "pair":
            ctx.sample(dict(kind=kind, case=case), limit=6)
    ctx.add("pure_evaluations", len(results))
    ctx.add("pure_distinct_nontrivial", n_nontrivial)
    ctx.set("pure_refused_classes", refused_classes)
    ctx.set("pure_lattice", dict(
        L=L_LIST, N=N_LIST, N_norm_over_N=RHO_LIST, ladder=LADDER, seed_phase=PHASES[seed],
        monotonic_switch_points=MONO_SWITCH, sqrt_kinds=KINDS, oversampling=OVERSAMPLE,
        pairs=dict(rho=[1, 5], kinds=["wall.X|X.wall", "X.X|X.X", "wall.X|X.X", "X.X|X.wall"]),
        region=dict(kinds=R_KINDS, ny=R_NY[ctx.tier], rho=R_RHO[ctx.tier], prefactor=R_PREF,
                    guards=R_GUARDS[ctx.tier], x=R_X[ctx.tier], t=R_T[ctx.tier], methods=R_METHODS,
                    nonorth=dict(ny=N_NY, ranges=N_RANGE, orthogonal_functions=N_ORTH,
                                 global_xind=N_XIND))))
    ctx.set("pure_rule",
            "pure part: full Cartesian product of pure_lattice. One evaluation = one construction "
            "of a spacing function (lattices D, R) or of a pair of them (lattice P). Non-trivial = "
            "the code returned a function that is strictly increasing at the indices it is used "
            "for, so that end values, end-gradient law and monotonicity were all judged on a "
            "function a grid would really use (P: both sides constructed and compared). Functions "
            "refused by a constructor or by the run-time guard are counted separately.")
    ctx.set("pure_exhaustive", True)
    ctx.assume("strict monotonicity is demanded at the indices PsiContour.getRegridded evaluates "
               "(integers, guard cells at wall ends included); folding strictly between integers "
               "is counted, not reported")


def replay(ctx, payload):
    rp = payload["replay"]
    kind, case = rp["kind"], rp["case"]
    if kind == "pair":
        case = dict(case, kinds=tuple(case["kinds"]))
    warnings.simplefilter("ignore")
    _quiet_pyplot()
    with np.errstate(all="ignore"):
        res = _KINDS[kind](case)
    for sig, detail in res["viol"]:
        detail = dict(detail)
        detail["case"] = case
        ctx.violation(sig, detail, replay=dict(part="pure", kind=kind, case=case))
    ctx.log("replayed %s case: %d violation(s)" % (kind, len(res["viol"])))
