"""C18 - psi interpolation reproduces the data; derived fields are its derivatives.

E3-pure.  Lattice (all enumerated, nothing sampled):

  functions x data grids x {spline, dct} x evaluation lattice (23 x 29 interior points,
  offsets incommensurate with the nodes; VERIF_SEED adds one of eight pre-declared offset
  pairs) plus all data nodes.

Objects under test

  "base"  a bare ``Equilibrium`` whose psi functions come from
          ``magneticFunctionsFromGrid`` and whose fpol/fpolprime are closed-form functions
          supplied by the checker: judges the interpolant and the helper chain
          Bzeta ... dBdZ on their own;
  "tok"   a ``TokamakEquilibrium(make_regions=False)`` with fpol and pressure given as
          arrays on an increasing ("inc") and on a decreasing ("dec") psi1D (the same
          profile, arrays reversed): judges fpol/fpolprime/pressure and the same chain
          with them.

Oracles (none of them evaluates a formula of the code under test to get the expected value):
finite differences (five-point stencil, three step sizes, Richardson/Romberg) *of the
code's own lower-order functions* - which is exactly what the property states ("agree with
finite differences of each other") - plus closed-form facts: node reproduction, div B = 0,
B^2 = sum of squares, profile cubic reproduced by a cubic spline, functions that lie in the
span of a method's basis are reproduced everywhere, convergence order under refinement.
"""

import concurrent.futures as cf
import contextlib
import io
import os
import warnings

import numpy as np

from ref import c18_functions as F

LEVEL = "exploration"

U = 2.220446049250313e-16
NE_R, NE_Z = 23, 29
BASE_PHASE = (0.37, 0.61)
# eight pre-declared additional offsets of the evaluation lattice (fractions of the lattice
# pitch); VERIF_SEED % 8 selects one which is explored in full on top of BASE_PHASE
SEED_PHASES = [
    (0.05, 0.93), (0.13, 0.29), (0.71, 0.17), (0.89, 0.43),
    (0.23, 0.77), (0.57, 0.07), (0.47, 0.53), (0.95, 0.83),
]

# ---- tolerances ---------------------------------------------------------------------------
# Node reproduction: 1e-12 * max|data| (the property: "reproduces the input array at the input
# nodes"; both methods are interpolating, so only rounding remains; observed 6e-16 / 4e-15).
NODE_RTOL = 1e-12
# Derivative identities: |code - FD| <= RTOL[method] * S_q + CR[method] * u * S_src / h_fine.
# First term: truncation left in the Romberg reference (observed <= 1e-11 S_q for both
# methods, see worst_reference_uncertainty in the evidence); second: rounding of the
# differentiated code function (S_src its size) divided by the smallest step.  CR is the
# number of ulps of S_src by which one evaluation of the code function may be off: spline
# evaluation is a 16-term sum, the dct evaluation sums nR*nZ terms of size up to S; the
# constants below are >= 15 times the noise observed on the pinned tree (see
# worst_ratio_per_check in the evidence: <= 0.07 over all seeds and both tiers).
RTOL = {"spline": 1e-9, "dct": 1e-9}


def _cr(method, nR, nZ):
    return 20.0 if method == "spline" else 20.0 + 2.0 * np.sqrt(nR * nZ)


# div B = 0 and B^2 = |B|^2 are algebraic identities of the returned numbers: 1e-11 relative
# to the size of the terms (design: "div B = 0 through the helper chain to 1e-11")
ALG_RTOL = 1e-11
# points where |grad psi| < GRAD_FLOOR * max|grad psi| are excluded from the f_R/f_Z
# comparison only (f = grad/|grad|^2 is singular there); they are counted
GRAD_FLOOR = 1e-3


def grids(tier):
    g = [(17, 17), (33, 65), (65, 65), (65, 33), (20, 31)]
    if tier == "thorough":
        g += [(129, 129), (48, 97), (129, 33)]
    return g


def functions(tier):
    f = ["G:lsn:+1", "G:cdn:-1", "saddle", "offgauss", "tallgauss", "cosmode"]
    if tier == "thorough":
        f += ["G:usn:-1", "G:udn:+1", "G:ldn2:-1", "G:lsn:-1", "G:cdn:+1"]
    return f


def tok_grids(tier):
    return grids(tier) if tier == "thorough" else [(17, 17), (33, 65), (20, 31)]


# ---- construction --------------------------------------------------------------------------
def _data(func, nR, nZ):
    Rmin, Rmax, Zmin, Zmax = func.domain
    R1 = np.linspace(Rmin, Rmax, nR)
    Z1 = np.linspace(Zmin, Zmax, nZ)
    R2, Z2 = np.meshgrid(R1, Z1, indexing="ij")
    return R1, Z1, R2, Z2, func.f(R2, Z2)


def _profile_arrays(psi2D, orient, nprof=33):
    """fpol and pressure as cubics of psi, sampled on a psi1D that covers the whole range of
    the data (so nothing is clamped on the evaluation lattice)"""
    lo, hi = float(psi2D.min()), float(psi2D.max())
    pad = 0.15 * (hi - lo)
    psi1 = np.linspace(lo - pad, hi + pad, nprof)
    if orient == "dec":
        psi1 = psi1[::-1].copy()
    return psi1, F.cubic(F.FCOEF, psi1), F.cubic(F.PCOEF, psi1)


def build(obj, method, R1, Z1, psi2D, orient="inc"):
    warnings.simplefilter("ignore")
    if obj == "base":
        from hypnotoad.core.equilibrium import Equilibrium

        class _Bare(Equilibrium):
            pass

        eq = _Bare.__new__(_Bare)
        eq.magneticFunctionsFromGrid(R1.copy(), Z1.copy(), psi2D.copy(), method)
        eq.fpol = lambda psi: F.cubic(F.FCOEF, psi)
        eq.fpolprime = lambda psi: F.cubic_prime(F.FCOEF, psi)
        return eq
    from hypnotoad.cases import tokamak

    psi1, fp, pr = _profile_arrays(psi2D, orient)
    with contextlib.redirect_stdout(io.StringIO()):
        eq = tokamak.TokamakEquilibrium(
            R1.copy(), Z1.copy(), psi2D.copy(), psi1.copy(), fp.copy(), pressure=pr.copy(),
            make_regions=False, settings={"psi_interpolation_method": method},
        )
    eq._c18_profiles = (psi1, fp, pr)
    return eq


def eval_lattice(func, phase):
    Rmin, Rmax, Zmin, Zmax = func.domain
    Re = Rmin + (np.arange(NE_R) + phase[0]) / NE_R * (Rmax - Rmin)
    Ze = Zmin + (np.arange(NE_Z) + phase[1]) / NE_Z * (Zmax - Zmin)
    return Re, Ze


def _steps(x, x1, method):
    """largest finite-difference step for the points x on the node ladder x1"""
    cell = x1[1] - x1[0]
    t = (x - x1[0]) / cell
    dist = np.minimum(t - np.floor(t), np.ceil(t) - t) * cell
    dist = np.where(dist == 0.0, cell, dist)  # on a node line: not used for FD
    if method == "spline":
        # the bicubic spline is one polynomial inside a data cell (its third derivative
        # jumps across node lines): keep the whole stencil (+-2h) inside the cell
        return np.minimum(0.02 * cell, dist / 2.2)
    # the cosine series is entire but contains wavelengths down to two cells
    return np.minimum(0.02 * cell, dist / 2.2)


CHAIN = ["Bzeta", "B2", "dBzetadR", "dBzetadZ", "dBRdR", "dBRdZ", "dBZdR", "dBZdZ",
         "dB2dR", "dB2dZ", "dBdR", "dBdZ"]
FIELDS = ["psi", "f_R", "f_Z", "Bp_R", "Bp_Z", "d2psidR2", "d2psidZ2", "d2psidRdZ"] + CHAIN


def _asarr(x):
    return np.asarray(x, dtype=float)


class _Rec:
    """collects worst ratios and the first offending point per check"""

    def __init__(self, task):
        self.task = task
        self.worst = {}
        self.viol = []
        self.counts = {}

    def judge(self, name, got, want, tol, R, Z, mask=None, extra=None):
        got, want, tol = np.broadcast_arrays(_asarr(got), _asarr(want), _asarr(tol))
        err = np.abs(got - want)
        err = np.where(np.isfinite(err), err, np.inf)
        ratio = err / tol
        if mask is not None:
            ratio = np.where(mask, ratio, 0.0)
            n = int(np.sum(mask))
        else:
            n = ratio.size
        self.counts[name] = self.counts.get(name, 0) + n
        if ratio.size == 0:
            return
        w = float(np.max(ratio))
        self.worst[name] = max(self.worst.get(name, 0.0), w)
        if w > 1.0:
            k = int(np.argmax(ratio))
            Rb, Zb = np.broadcast_arrays(_asarr(R), _asarr(Z))
            if Rb.shape != ratio.shape:
                Rb, Zb = np.broadcast_to(Rb, ratio.shape), np.broadcast_to(Zb, ratio.shape)
            d = dict(check=name, R=float(Rb.ravel()[k]), Z=float(Zb.ravel()[k]),
                     got=float(got.ravel()[k]), expected=float(want.ravel()[k]),
                     tol=float(tol.ravel()[k]), n_bad=int(np.sum(ratio > 1.0)), n_judged=n)
            if extra:
                d.update(extra)
            self.viol.append((name, d))


def field_task(task):
    """all pointwise oracles for one (object, orientation, function, grid, method, phase)"""
    warnings.simplefilter("ignore")
    np.seterr(all="ignore")
    func = F.get(task["func"], task["nR"], task["nZ"])
    method, nR, nZ, obj = task["method"], task["nR"], task["nZ"], task["obj"]
    R1, Z1, R2, Z2, psi2D = _data(func, nR, nZ)
    eq = build(obj, method, R1, Z1, psi2D, task.get("orient", "inc"))
    rec = _Rec(task)
    S = float(np.max(np.abs(psi2D)))
    cr = _cr(method, nR, nZ)
    out = dict(task=task, excluded_small_gradient=0, points=0, nodes=0)

    # ---- nodes: reproduction of the data; algebraic link f_R,f_Z <-> Bp_R,Bp_Z -------------
    if task.get("rows") in (None, 0):
        got = _asarr(eq.psi(R2, Z2))
        rec.judge("psi(node) vs data", got, psi2D, NODE_RTOL * S, R2, Z2)
        out["nodes"] = int(R2.size)
        bR, bZ = _asarr(eq.Bp_R(R2, Z2)), _asarr(eq.Bp_Z(R2, Z2))
        fR, fZ = _asarr(eq.f_R(R2, Z2)), _asarr(eq.f_Z(R2, Z2))
        gR, gZ = -R2 * bZ, R2 * bR  # grad psi according to Bp
        g2 = gR**2 + gZ**2
        ok = g2 > (GRAD_FLOOR * np.sqrt(np.max(g2))) ** 2
        # both are built from the same two derivative evaluations: rounding only.  The dct
        # derivative sums nR*nZ terms, hence cr ulps of the gradient scale, amplified by
        # 3/|g|^2 (derivative of g/|g|^2)
        tolf = 3.0 * cr * U * np.sqrt(np.max(g2)) / np.where(ok, g2, 1.0) + 1e-13 * np.abs(fR) + 1e-300
        rec.judge("f_R vs Bp_Z at nodes (incl. edges)", fR, gR / np.where(ok, g2, 1.0), tolf, R2, Z2, ok)
        rec.judge("f_Z vs Bp_R at nodes (incl. edges)", fZ, gZ / np.where(ok, g2, 1.0), tolf, R2, Z2, ok)

    # ---- interior lattice -------------------------------------------------------------------
    Re, Ze = eval_lattice(func, task["phase"])
    hR1, hZ1 = _steps(Re, R1, method), _steps(Ze, Z1, method)
    if task.get("rows") is not None:
        nchunk = task["nchunk"]
        sel = np.arange(NE_R)[task["rows"]::nchunk]
        Re, hR1 = Re[sel], hR1[sel]
    R, Z = np.meshgrid(Re, Ze, indexing="ij")
    hR = np.broadcast_to(hR1[:, None], R.shape)
    hZ = np.broadcast_to(hZ1[None, :], R.shape)
    out["points"] = int(R.size)

    def Q(r, z):
        psi = _asarr(eq.psi(r, z))
        bR = _asarr(eq.Bp_R(r, z))
        bZ = _asarr(eq.Bp_Z(r, z))
        bt = _asarr(eq.Bzeta(r, z))
        b2 = _asarr(eq.B2(r, z))
        return np.stack([psi, bR, bZ, bt, b2, np.sqrt(b2), r * bR, -r * bZ])

    q0 = Q(R, Z)
    dQR, eR = F.romberg(Q, R, Z, hR, 0)
    dQZ, eZ = F.romberg(Q, R, Z, hZ, 1)
    Ssrc = np.max(np.abs(q0), axis=(1, 2))  # size of each differentiated quantity
    hfR, hfZ = hR / 4.0, hZ / 4.0
    refunc = 0.0

    def tol(i, Sq, axis):
        hf = hfR if axis == 0 else hfZ
        return RTOL[method] * Sq + cr * U * Ssrc[i] / hf

    def cmp(name, got, i, axis, Sq=None):
        nonlocal refunc
        want = (dQR if axis == 0 else dQZ)[i]
        est = (eR if axis == 0 else eZ)[i]
        if Sq is None:
            Sq = max(float(np.max(np.abs(want))), 1e-300)
        t = tol(i, Sq, axis)
        refunc = max(refunc, float(np.max(est / t)))
        rec.judge(name, got, want, t, R, Z)
        return Sq

    c = {k: _asarr(getattr(eq, k)(R, Z)) for k in FIELDS}
    psiR, psiZ = dQR[0], dQZ[0]
    Sg = max(float(np.max(np.hypot(psiR, psiZ))), 1e-300)
    # first derivatives
    cmp("R*Bp_R vs FD_Z(psi)", R * c["Bp_R"], 0, 1, Sg)
    cmp("-R*Bp_Z vs FD_R(psi)", -R * c["Bp_Z"], 0, 0, Sg)
    g2 = psiR**2 + psiZ**2
    ok = g2 > (GRAD_FLOOR * Sg) ** 2
    out["excluded_small_gradient"] = int(np.sum(~ok))
    g2s = np.where(ok, g2, 1.0)
    tolf = 3.0 * np.maximum(tol(0, Sg, 0), tol(0, Sg, 1)) / g2s
    rec.judge("f_R vs FD(psi)", c["f_R"], psiR / g2s, tolf, R, Z, ok)
    rec.judge("f_Z vs FD(psi)", c["f_Z"], psiZ / g2s, tolf, R, Z, ok)
    # second derivatives from differences of the first derivatives
    Sh = max(float(np.max(np.abs(dQR[7]))), float(np.max(np.abs(dQZ[6]))),
             float(np.max(np.abs(dQZ[7]))), 1e-300)
    cmp("d2psidR2 vs FD_R(-R*Bp_Z)", c["d2psidR2"], 7, 0, Sh)
    cmp("d2psidZ2 vs FD_Z(R*Bp_R)", c["d2psidZ2"], 6, 1, Sh)
    cmp("d2psidRdZ vs FD_Z(-R*Bp_Z)", c["d2psidRdZ"], 7, 1, Sh)
    cmp("d2psidRdZ vs FD_R(R*Bp_R)", c["d2psidRdZ"], 6, 0, Sh)
    # field derivatives
    Sb = max(float(np.max(np.abs(dQR[1:3]))), float(np.max(np.abs(dQZ[1:3]))), 1e-300)
    cmp("dBRdR vs FD_R(Bp_R)", c["dBRdR"], 1, 0, Sb)
    cmp("dBRdZ vs FD_Z(Bp_R)", c["dBRdZ"], 1, 1, Sb)
    cmp("dBZdR vs FD_R(Bp_Z)", c["dBZdR"], 2, 0, Sb)
    cmp("dBZdZ vs FD_Z(Bp_Z)", c["dBZdZ"], 2, 1, Sb)
    St = max(float(np.max(np.abs(dQR[3]))), float(np.max(np.abs(dQZ[3]))), 1e-300)
    cmp("dBzetadR vs FD_R(Bzeta)", c["dBzetadR"], 3, 0, St)
    cmp("dBzetadZ vs FD_Z(Bzeta)", c["dBzetadZ"], 3, 1, St)
    S2 = max(float(np.max(np.abs(dQR[4]))), float(np.max(np.abs(dQZ[4]))), 1e-300)
    cmp("dB2dR vs FD_R(B2)", c["dB2dR"], 4, 0, S2)
    cmp("dB2dZ vs FD_Z(B2)", c["dB2dZ"], 4, 1, S2)
    S1 = max(float(np.max(np.abs(dQR[5]))), float(np.max(np.abs(dQZ[5]))), 1e-300)
    cmp("dBdR vs FD_R(sqrt(B2))", c["dBdR"], 5, 0, S1)
    cmp("dBdZ vs FD_Z(sqrt(B2))", c["dBdZ"], 5, 1, S1)
    # algebra of the returned numbers
    rec.judge("div B = dBRdR + Bp_R/R + dBZdZ = 0", c["dBRdR"] + c["Bp_R"] / R + c["dBZdZ"], 0.0,
              ALG_RTOL * Sb, R, Z)
    rec.judge("B2 = Bp_R^2 + Bp_Z^2 + Bzeta^2", c["B2"],
              c["Bp_R"] ** 2 + c["Bp_Z"] ** 2 + c["Bzeta"] ** 2, ALG_RTOL * Ssrc[4], R, Z)
    if obj == "base":
        # the checker's own fpol: Bzeta must be fpol(psi)/R
        rec.judge("Bzeta = fpol(psi)/R", c["Bzeta"], F.cubic(F.FCOEF, c["psi"]) / R,
                  ALG_RTOL * Ssrc[3], R, Z)
        # functions in the span of the method's basis are reproduced between the nodes
        if method in func.exact_for:
            aR, aZ = func.grad(R, Z)
            rec.judge("psi vs analytic (function in the method's span)", c["psi"], func.f(R, Z),
                      1e-11 * S, R, Z)
            Sga = float(np.max(np.hypot(aR, aZ)))
            rec.judge("R*Bp_R vs analytic psi_Z (function in the method's span)", R * c["Bp_R"], aZ,
                      1e-10 * Sga, R, Z)
            rec.judge("-R*Bp_Z vs analytic psi_R (function in the method's span)", -R * c["Bp_Z"], aR,
                      1e-10 * Sga, R, Z)
    else:
        _profile_checks(eq, rec, c, R, Z, Ssrc)
        if task.get("rows") in (None, 0):
            Rf, Zf = np.meshgrid(*eval_lattice(func, task["phase"]), indexing="ij")
            _argument_forms(eq, rec, Rf, Zf)
    out["worst"] = rec.worst
    out["counts"] = rec.counts
    out["viol"] = rec.viol
    out["reference_uncertainty_over_tol"] = refunc
    out["sample"] = dict(R=float(R[1, 2]), Z=float(Z[1, 2]), psi=float(c["psi"][1, 2]),
                         dBdR=float(c["dBdR"][1, 2]), dBdR_fd=float(dQR[5][1, 2]))
    return out


def _profile_checks(eq, rec, c, R, Z, Ssrc):
    """fpol / fpolprime / pressure of a TokamakEquilibrium given cubic profiles as arrays"""
    psi1, fp, pr = eq._c18_profiles
    lo, hi = float(np.min(psi1)), float(np.max(psi1))
    Sf, Sp = float(np.max(np.abs(fp))), float(np.max(np.abs(pr)))
    z = 0.0 * psi1
    rec.judge("fpol(psi1D) vs fpol1D", eq.fpol(psi1), fp, 1e-12 * Sf, psi1, z)
    rec.judge("pressure(psi1D) vs pressure array", eq.pressure(psi1), pr, 1e-12 * Sp, psi1, z)
    # a psi ladder incommensurate with psi1D, inside the profile range
    n = 4 * len(psi1) + 3
    x = lo + (np.arange(n) + 0.41) / n * (hi - lo)
    cell = (hi - lo) / (len(psi1) - 1)
    t = (x - lo) / cell
    dist = np.minimum(t - np.floor(t), np.ceil(t) - t) * cell
    h = np.minimum(0.2 * cell, dist / 2.2)
    fd, est = F.romberg(lambda a, b: _asarr(eq.fpol(a))[None], x, 0 * x, h, 0)
    Sd = float(np.max(np.abs(F.cubic_prime(F.FCOEF, x))))
    tolp = 1e-9 * Sd + 20 * U * Sf / (h / 4)
    rec.judge("fpolprime vs FD(fpol)", eq.fpolprime(x), fd[0], tolp, x, 0 * x)
    # the interpolating cubic spline through samples of a cubic is that cubic
    rec.judge("fpol vs the cubic it was sampled from", eq.fpol(x), F.cubic(F.FCOEF, x), 1e-11 * Sf, x, 0 * x)
    rec.judge("fpolprime vs derivative of the cubic", eq.fpolprime(x), F.cubic_prime(F.FCOEF, x),
              1e-9 * Sd, x, 0 * x)
    rec.judge("pressure vs the cubic it was sampled from", eq.pressure(x), F.cubic(F.PCOEF, x),
              1e-11 * Sp, x, 0 * x)
    # outside the profile range the code holds f at the edge value: derivative zero
    xo = np.array([lo - 0.3 * (hi - lo), lo - 1e-3 * (hi - lo), hi + 1e-3 * (hi - lo), hi + 0.3 * (hi - lo)])
    edge = np.where(xo < lo, F.cubic(F.FCOEF, lo), F.cubic(F.FCOEF, hi))
    rec.judge("fpol outside psi1D = edge value", eq.fpol(xo), edge, 1e-11 * Sf, xo, 0 * xo)
    rec.judge("fpolprime outside psi1D = 0", eq.fpolprime(xo), 0.0, 1e-9 * Sd, xo, 0 * xo)
    rec.judge("Bzeta = fpol(psi)/R", c["Bzeta"], F.cubic(F.FCOEF, c["psi"]) / R, ALG_RTOL * Ssrc[3], R, Z)


def _argument_forms(eq, rec, R, Z):
    """scalar / 1-D / 2-D / MultiLocationArray arguments give identical numbers"""
    from hypnotoad.core.multilocationarray import MultiLocationArray

    nx, ny = 3, 2
    Rm, Zm = MultiLocationArray(nx, ny), MultiLocationArray(nx, ny)
    shapes = dict(centre=(nx, ny), xlow=(nx + 1, ny), ylow=(nx, ny + 1), corners=(nx + 1, ny + 1))
    off = 0
    for loc, sh in shapes.items():
        # distinct points for each location, taken from the evaluation lattice
        r = R[off:off + sh[0], 3:3 + sh[1]] + 0.0
        z = Z[off:off + sh[0], 3:3 + sh[1]] + 0.0
        setattr(Rm, loc, r)
        setattr(Zm, loc, z)
        off += 1
    for name in FIELDS:
        fn = getattr(eq, name)
        try:
            m = fn(Rm, Zm)
        except Exception as e:  # the property quantifies over multi-location arguments
            rec.viol.append(("argument forms | raises for MultiLocationArray",
                             dict(check="argument forms", function=name, error=repr(e)[:300])))
            continue
        for loc in shapes:
            r, z = getattr(Rm, loc), getattr(Zm, loc)
            a2 = _asarr(fn(r, z))
            a1 = _asarr(fn(r.ravel().copy(), z.ravel().copy())).reshape(r.shape)
            a0 = np.array([[float(fn(float(r[i, j]), float(z[i, j]))) for j in range(r.shape[1])]
                           for i in range(r.shape[0])])
            am = _asarr(getattr(m, loc))
            # "identical numbers": every form runs the same per-point arithmetic; a few ulp
            # are granted for vectorised vs scalar code paths inside numpy/FITPACK
            t = 1e-13 * np.maximum(np.abs(a2), float(np.max(np.abs(a2)))) + 1e-300
            rec.judge("argument forms | 1-D vs 2-D", a1, a2, t, r, z, extra=dict(function=name))
            rec.judge("argument forms | scalar vs 2-D", a0, a2, t, r, z, extra=dict(function=name))
            rec.judge("argument forms | MultiLocationArray vs 2-D", am, a2, t, r, z,
                      extra=dict(function=name, location=loc))


# ---- agreement with the analytic function / between methods, order of convergence ----------
# Demanded reduction of the error per doubling of the data grid: err(2n) <= err(n) / 2**order.
# Theory: bicubic interpolating spline 4 (value) and 3 (gradient).  The cosine series
# represents the even extension of the data about the half-cell beyond the edge, which has a
# kink in its first derivative there: in a boundary layer its gradient does not converge in the
# maximum norm at all (this is the method's interpolation error, not a defect), away from it
# the value converges with order ~2..3 and the gradient with ~1.3..2 (observed).  The dct is
# therefore judged on the window that stays DCT_WINDOW of the span away from every edge.  The
# *order* of the spline is judged on the same window (next to an edge its error is governed by
# the not-a-knot end condition and, at 33 points across a Gaussian that peaks near the edge,
# is not yet in the asymptotic regime: 1.5 observed for the gradient of G:usn); the spline's
# error bound from refinement is judged on the whole lattice.  Observed minimum orders on the
# window: spline 3.6 / 2.6, dct 2.5 / 1.1; the demanded ones leave at least 0.4 (a factor 1.3
# in the error).
MIN_ORDER = {"spline": (3.0, 2.0), "dct": (1.5, 0.7)}
DCT_WINDOW = 0.2


def _window(func, R, Z, method):
    if method == "spline":
        return np.ones(R.shape, dtype=bool)
    Rmin, Rmax, Zmin, Zmax = func.domain
    mR, mZ = DCT_WINDOW * (Rmax - Rmin), DCT_WINDOW * (Zmax - Zmin)
    return (R > Rmin + mR) & (R < Rmax - mR) & (Z > Zmin + mZ) & (Z < Zmax - mZ)


def conv_task(task):
    warnings.simplefilter("ignore")
    np.seterr(all="ignore")
    name, ladder = task["func"], task["ladder"]
    res = {}
    func = F.get(name)
    Re, Ze = eval_lattice(func, task["phase"])
    R, Z = np.meshgrid(Re, Ze, indexing="ij")
    aR, aZ = func.grad(R, Z)
    vals = {}
    for method in ("spline", "dct"):
        w = _window(func, R, Z, method)
        for (nR, nZ) in ladder:
            R1, Z1, R2, Z2, psi2D = _data(func, nR, nZ)
            eq = build("base", method, R1, Z1, psi2D)
            p = _asarr(eq.psi(R, Z))
            gR, gZ = -R * _asarr(eq.Bp_Z(R, Z)), R * _asarr(eq.Bp_R(R, Z))
            vals[(method, nR, nZ)] = (p, gR, gZ)
            ww = _window(func, R, Z, "dct")
            res["%s %dx%d" % (method, nR, nZ)] = (
                float(np.max(np.abs(p - func.f(R, Z))[w])),
                float(np.max(np.hypot(gR - aR, gZ - aZ)[w])),
                float(np.max(np.abs(p - func.f(R, Z))[ww])),
                float(np.max(np.hypot(gR - aR, gZ - aZ)[ww])),
            )
    cross = {}
    w = _window(func, R, Z, "dct")
    for (nR, nZ) in ladder:
        a, b = vals[("spline", nR, nZ)], vals[("dct", nR, nZ)]
        cross["%dx%d" % (nR, nZ)] = (float(np.max(np.abs(a[0] - b[0])[w])),
                                     float(np.max(np.hypot(a[1] - b[1], a[2] - b[2])[w])))
    refine = {}
    for method in ("spline", "dct"):
        # for the cross-method bound both are needed on the dct window
        for k in range(len(ladder) - 1):
            a, b = vals[(method,) + tuple(ladder[k])], vals[(method,) + tuple(ladder[k + 1])]
            for wn, ww in (("", _window(func, R, Z, method)), ("@window", w)):
                refine["%s %dx%d%s" % ((method,) + tuple(ladder[k + 1]) + (wn,))] = (
                    float(np.max(np.abs(a[0] - b[0])[ww])),
                    float(np.max(np.hypot(a[1] - b[1], a[2] - b[2])[ww])))
    return dict(task=task, err=res, cross=cross, refine=refine, window_points=int(np.sum(w)),
                scale=(float(np.max(np.abs(func.f(R, Z)))), float(np.max(np.hypot(aR, aZ)))))


def judge_conv(ctx, r, stats):
    task, ladder = r["task"], r["task"]["ladder"]
    name = task["func"]
    exact = F.get(name).exact_for
    S = r["scale"]
    for method in ("spline", "dct"):
        for k in range(len(ladder) - 1):
            lo = "%s %dx%d" % ((method,) + tuple(ladder[k]))
            hi = "%s %dx%d" % ((method,) + tuple(ladder[k + 1]))
            for q, qn in ((0, "psi"), (1, "grad psi")):
                e0, e1 = r["err"][lo][q], r["err"][hi][q]
                floor = 1e-10 * S[q]
                stats["conv_cases"] += 1
                if method in exact:
                    # reproduced exactly on every grid: nothing to converge
                    ok = e0 < floor and e1 < floor
                    order = None
                else:
                    w0, w1 = r["err"][lo][q + 2], r["err"][hi][q + 2]  # on the interior window
                    order = float(np.log2(w0 / max(w1, 1e-300)))
                    need = MIN_ORDER[method][q]
                    ok = w1 < floor or order >= need
                    if w1 >= floor:
                        stats["order_margin"] = min(stats["order_margin"], order - need)
                    stats["orders"].setdefault("%s %s" % (method, qn), []).append(round(order, 2))
                if not ok:
                    ctx.violation(
                        "agreement | %s vs analytic does not converge at the interpolation order | %s" % (qn, method),
                        dict(func=name, coarse=lo, fine=hi, err_coarse=e0, err_fine=e1, observed_order=order,
                             required_order=MIN_ORDER[method][q]),
                        replay=dict(kind="conv", task=task))
                # "within the interpolation error": the error on the fine grid is bounded by
                # the change the refinement produced (holds whenever the sequence converges
                # with order >= 1); factor 1 + floor
                bound = r["refine"][hi][q] + floor
                stats["worst_err_over_refinement_bound"] = max(stats["worst_err_over_refinement_bound"], e1 / bound)
                if e1 > bound:
                    ctx.violation(
                        "agreement | %s error exceeds the refinement bound | %s" % (qn, method),
                        dict(func=name, fine=hi, err=e1, bound=bound), replay=dict(kind="conv", task=task))
    # spline vs dct on the finest grid: within the sum of the two refinement bounds
    nR, nZ = ladder[-1]
    for q, qn in ((0, "psi"), (1, "grad psi")):
        d = r["cross"]["%dx%d" % (nR, nZ)][q]
        bound = (r["refine"]["spline %dx%d@window" % (nR, nZ)][q]
                 + r["refine"]["dct %dx%d@window" % (nR, nZ)][q] + 1e-10 * S[q])
        stats["worst_cross_over_bound"] = max(stats["worst_cross_over_bound"], d / bound)
        stats["conv_cases"] += 1
        if d > bound:
            ctx.violation("agreement | spline vs dct differ by more than their interpolation errors | %s" % qn,
                          dict(func=name, grid=[nR, nZ], diff=d, bound=bound), replay=dict(kind="conv", task=task))


# ---- driver ------------------------------------------------------------------------------
def _dct_small(nR, nZ):
    return nR * nZ <= 700


def tasks_for(tier, seed):
    """quick tier: the dct evaluates one point per python-level pass over the whole coefficient
    array, so the large dct grids are visited with the base phase and the bare object only;
    the thorough tier is the full product."""
    phases = [BASE_PHASE, SEED_PHASES[seed % 8]]
    ts = []
    for ip, ph in enumerate(phases):
        for fn in functions(tier):
            for (nR, nZ) in grids(tier):
                for method in ("spline", "dct"):
                    if tier == "quick" and method == "dct" and ip == 1 and not _dct_small(nR, nZ):
                        continue
                    ts.append(dict(kind="field", obj="base", func=fn, nR=nR, nZ=nZ, method=method,
                                   phase=list(ph)))
            for (nR, nZ) in tok_grids(tier):
                for method in ("spline", "dct"):
                    if tier == "quick" and method == "dct" and not _dct_small(nR, nZ):
                        continue
                    if method == "dct" and nR * nZ > 9000:
                        continue  # 129x129 dct: the bare object covers it (cost)
                    for orient in ("inc", "dec"):
                        ts.append(dict(kind="field", obj="tok", orient=orient, func=fn, nR=nR, nZ=nZ,
                                       method=method, phase=list(ph)))
    # split the slow (dct) tasks over lattice rows
    out = []
    for t in ts:
        cost = (t["nR"] * t["nZ"]) if t["method"] == "dct" else 0
        nchunk = 1 if cost < 600 else (2 if cost < 1500 else (4 if cost < 5000 else 8))
        if nchunk == 1:
            out.append(t)
        else:
            for k in range(nchunk):
                out.append(dict(t, rows=k, nchunk=nchunk))
    ladders = [[(33, 33), (65, 65)]]
    if tier == "thorough":
        ladders = [[(33, 33), (65, 65), (129, 129)], [(33, 65), (65, 129)]]
    conv = [dict(kind="conv", func=fn, ladder=[list(x) for x in lad], phase=list(BASE_PHASE))
            for fn in functions(tier) if fn != "cosmode" for lad in ladders]
    return out, conv


def _sig(task, check):
    s = "%s | %s | %s" % (task["obj"], check, task["method"])
    if task["obj"] == "tok":
        s += " | psi1D %s" % ("decreasing" if task["orient"] == "dec" else "increasing")
    return s


def _absorb(ctx, r, agg):
    t = r["task"]
    for check, detail in r["viol"]:
        d = dict(detail)
        d.update(func=t["func"], grid=[t["nR"], t["nZ"]], method=t["method"], object=t["obj"],
                 orient=t.get("orient"))
        ctx.violation(_sig(t, check), d, replay=dict(kind="field", task=t))
    for k, v in r["worst"].items():
        agg["worst"][k] = max(agg["worst"].get(k, 0.0), v)
        ctx.setmax("worst_residual_over_tolerance", v)
    for k, v in r["counts"].items():
        agg["counts"][k] = agg["counts"].get(k, 0) + v
    agg["points"] += r["points"]
    agg["nodes"] += r["nodes"]
    agg["excl"] += r["excluded_small_gradient"]
    agg["refunc"] = max(agg["refunc"], r["reference_uncertainty_over_tol"])


def _pool_map(fn, tasks, ctx):
    nproc = min(16, os.cpu_count() or 1, max(1, len(tasks)))
    if nproc <= 1 or len(tasks) <= 2:
        return [fn(t) for t in tasks]
    with cf.ProcessPoolExecutor(nproc) as ex:
        return list(ex.map(fn, tasks, chunksize=1))


def run(ctx, only=None):
    ftasks, ctasks = tasks_for(ctx.tier, ctx.seed)
    if only is not None:
        ftasks, ctasks = only
    # seed: rotate the work order only
    k = ctx.seed % max(1, len(ftasks))
    ftasks = ftasks[k:] + ftasks[:k]
    # slow ones first
    ftasks.sort(key=lambda t: -(t["nR"] * t["nZ"] if t["method"] == "dct" else 0))
    agg = dict(worst={}, counts={}, points=0, nodes=0, excl=0, refunc=0.0)
    res = _pool_map(field_task, ftasks, ctx)
    for r in res:
        _absorb(ctx, r, agg)
    for r in res[:40:8]:
        ctx.sample(dict(task={k: v for k, v in r["task"].items() if k != "kind"}, **r["sample"]))
    stats = dict(conv_cases=0, order_margin=np.inf, orders={}, worst_err_over_refinement_bound=0.0,
                 worst_cross_over_bound=0.0)
    for r in _pool_map(conv_task, ctasks, ctx):
        judge_conv(ctx, r, stats)
    combos = set((t["obj"], t.get("orient"), t["func"], t["nR"], t["nZ"], t["method"], tuple(t["phase"]))
                 for t in ftasks)
    ctx.set("evaluations", int(sum(agg["counts"].values())) + stats["conv_cases"])
    ctx.set("distinct_nontrivial", len(combos) + len(ctasks))
    ctx.set("rule", "one case = (object base|tok-inc|tok-dec, function, data grid, method, lattice "
            "phase): every point of the 23x29 evaluation lattice and every data node is judged by "
            "every oracle; 'evaluations' counts (point, oracle) pairs; a case is non-trivial because "
            "every function has non-zero psi, grad psi, Hessian and fpol' on the lattice (points with "
            "|grad psi| < 1e-3 max are excluded from the f_R/f_Z comparison only and counted); plus one "
            "refinement ladder per function for the agreement clause")
    ctx.set("exhaustive", only is None)
    ctx.set("functions", functions(ctx.tier))
    ctx.set("data_grids", [list(g) for g in grids(ctx.tier)])
    ctx.set("tok_grids", [list(g) for g in tok_grids(ctx.tier)])
    ctx.set("evaluation_lattice", [NE_R, NE_Z])
    ctx.set("phases", [list(BASE_PHASE), list(SEED_PHASES[ctx.seed % 8])])
    ctx.set("interior_points_judged", agg["points"])
    ctx.set("nodes_judged", agg["nodes"])
    ctx.set("excluded_small_gradient_points", agg["excl"])
    ctx.set("worst_ratio_per_check", {k: float("%.3g" % v) for k, v in sorted(agg["worst"].items())})
    ctx.set("judged_per_check", agg["counts"])
    ctx.set("worst_reference_uncertainty_over_tolerance", agg["refunc"])
    ctx.set("observed_orders", stats["orders"])
    ctx.set("min_order_margin", None if stats["order_margin"] == np.inf else stats["order_margin"])
    ctx.set("worst_err_over_refinement_bound", stats["worst_err_over_refinement_bound"])
    ctx.set("worst_cross_method_over_bound", stats["worst_cross_over_bound"])
    ctx.assume("expected values come from finite differences of the code's own lower-order functions "
               "(the property's 'consistent derivatives of one interpolant'), never from its formulas")


def replay(ctx, payload):
    p = payload["replay"]
    if p["kind"] == "field":
        t = dict(p["task"])
        t.pop("rows", None)
        t.pop("nchunk", None)
        run(ctx, only=([t], []))
    else:
        run(ctx, only=([], [p["task"]]))
