"""C13 (second part): one differential grid generated with number_of_processors 2 (3 in the
thorough tier) and 1 - every numeric variable of the file must be bit-identical."""

from props.C14 import nc_equal
from vlib import corpus, lattice


def members(tier):
    out = [("lsn/nonorth", lattice.mk("lsn", False), lattice.mk("lsn", False, opt=dict(number_of_processors=2), tags=["np"]))]
    if tier == "thorough":
        out.append(("cdn/nonorth np=3", lattice.mk("cdn", False), lattice.mk("cdn", False, opt=dict(number_of_processors=3), tags=["np"])))
        out.append(("udn/orth np=2", lattice.mk("udn", True), lattice.mk("udn", True, opt=dict(number_of_processors=2), tags=["np"])))
    return out


def run(ctx):
    ms = members(ctx.tier)
    arts = corpus.ensure([m for _, a, b in ms for m in (a, b)], log=ctx.log)
    n = 0
    for k, (label, _, _) in enumerate(ms):
        s, p = arts[2 * k], arts[2 * k + 1]
        if s.ok != p.ok:
            ctx.violation("grid | parallel generation fails where serial succeeds (or vice versa)",
                          dict(case=label, serial=s.outcome, parallel=p.outcome, error=p.meta.get("exc_msg") or s.meta.get("exc_msg")),
                          replay=dict(kind="grid", case=label))
            continue
        if not s.ok:
            continue
        diff = [d for d in nc_equal(s.nc, p.nc)]
        n += 1
        if diff:
            ctx.violation("grid | grid generated with number_of_processors>1 differs from the serial grid",
                          dict(case=label, variables=diff[:12], n=len(diff)), replay=dict(kind="grid", case=label))
    ctx.set("differential_grids_compared_bitwise", n)


def replay(ctx, payload):
    run(ctx)
