"""C06 - zShift, ShiftAngle, dphidy and ShiftTorsion follow the field lines.

E3-grid + independent tracing (ref/trace.py): the integral of Bt/(R|Bp|) = f/(R|grad psi|)
along every flux surface between consecutive grid points is recomputed with the checker's
own interpolant and profile spline.
"""

import numpy as np

from props.C05 import values_on_contour, nfine_of, ladder_members
from ref import trace
from vlib import gridutil as gu

LEVEL = "exploration"
END_FLOOR = 3e-4  # see C05: end-point distance floor, in metres of arc


def check_artefact(ctx, a, stats):
    side = a.side
    opts = side["mesh"]["user_options"]
    if a.config["fpol"] == "none":
        return False
    mode = "orth" if opts.get("orthogonal", True) else "nonorth"
    dy = side["mesh"]["dy_scalar"]
    nf = nfine_of(a)
    rtol = 200.0 / nf**2  # trapezoid rule on the Nfine-point fine contour, same constant as C05
    regs = {r["myID"]: r for r in side["regions"]}
    myg = int(opts.get("y_boundary_guards", 0))
    closed_x = {}
    ref = gu.ref_for(a)

    def V(what, reg, detail):
        detail.update(config=a.config["label"], region=reg["name"])
        ctx.violation("%s | %s" % (mode, what), detail, replay=dict(config=a.config))

    for group in side["mesh"]["y_groups"]:
        first = regs[group[0]]
        periodic = first["connections"]["lower"] is not None
        nx = first["nx"]
        for k in range(2 * nx + 1):
            total = 0.0
            total_allow = 0.0
            total_ok = True
            prev_last = None
            for gi, rid in enumerate(group):
                reg = regs[rid]
                ny = reg["ny"]
                A = reg["arrays"]
                tr = a.trace[rid]
                dphi = tr["dphi"][k]
                arc = tr["arc"][k]
                zs = values_on_contour(A, "zShift", k, ny)
                dz = np.diff(zs)
                ok = np.isfinite(dphi)
                stats["increments"] += int(ok.sum())
                # local scale of nu = d(zShift)/ds to convert the end-point distance floor
                with np.errstate(invalid="ignore", divide="ignore"):
                    nu = np.abs(dphi / arc)
                err = np.abs(dz - dphi)
                # the integrand nu = f/(R|grad psi|) varies strongly next to an X-point;
                # the trapezoid error on the fine contour scales with its variation over
                # the segment (estimated from the end points)
                P = trace.contour_points(reg, k)
                gR, gZ = ref.grad(P[:, 0], P[:, 1])
                nu_pts = 1.0 / (P[:, 0] * np.hypot(gR, gZ))
                var = np.maximum(nu_pts[1:], nu_pts[:-1]) / np.minimum(nu_pts[1:], nu_pts[:-1])
                allow = trace.curvature_allowance(tr["kappa"][k], nf, float(np.nansum(arc)))
                tol = (rtol * var**2 + allow) * np.abs(dphi) + 1e-10
                bad = ok & (err > tol)
                for m in np.argwhere(bad).ravel():
                    m = int(m)
                    endseg = (m == 0 and reg["connections"]["lower"] is not None) or \
                             (m == 2 * ny - 1 and reg["connections"]["upper"] is not None)
                    if endseg and err[m] <= END_FLOOR * nu[m] + tol[m]:
                        what = "zShift increment at a contour end next to a region join off by <3e-4 m of arc (Nfine-independent end-point floor)"
                    else:
                        what = "zShift increment differs from the field-line integral"
                    V(what, reg, dict(contour=k, m=m, increment=float(dz[m]), integral=float(dphi[m]),
                                     err=float(err[m]), tol=float(tol[m])))
                    break
                inner = ok & (np.arange(2 * ny) > 0) & (np.arange(2 * ny) < 2 * ny - 1)
                if inner.any():
                    ctx.setmax("worst_zShift_increment_error_over_tolerance(away from contour ends)",
                               float(np.nanmax(np.where(inner, err / tol, 0))))
                if prev_last is not None and abs(zs[0] - prev_last) > 1e-12 * max(1.0, abs(prev_last)):
                    V("zShift discontinuous across a region join", reg,
                      dict(contour=k, below=float(prev_last), above=float(zs[0])))
                prev_last = zs[-1]
                if gi == 0:
                    origin = 0 if periodic else 2 * myg
                    if abs(zs[origin]) > 1e-12:
                        V("zShift is not zero at the start of its chain (%s)" % ("core join" if periodic else "lower target"),
                          reg, dict(contour=k, point=origin, value=float(zs[origin])))
                if np.all(np.isfinite(dphi)):
                    total += float(dphi.sum())
                    total_allow += float(np.sum(allow * np.abs(dphi)))
                else:
                    total_ok = False
            if k % 2 == 1:
                i = (k - 1) // 2
                x0 = first["xslice"][0]
                closed_x[x0 + i] = closed_x.get(x0 + i, False) or periodic
                if periodic:
                    sa = a.nc["ShiftAngle"][x0 + i]
                    stats["closed_surfaces"] += 1
                    if total_ok:
                        ctx.setmax("worst_rel_ShiftAngle_error_times_Nfine^2", abs(sa - total) / abs(total) * nf**2)
                        # two contour ends per region may carry the end-point floor
                        if not (abs(sa - total) <= rtol * abs(total) + total_allow):
                            V("ShiftAngle differs from the field-line integral round the closed surface", first,
                              dict(contour=k, got=float(sa), integral=total, tol=rtol * abs(total)))
    sa_all = a.nc["ShiftAngle"]
    for x in range(len(sa_all)):
        if not closed_x.get(x, False) and np.isfinite(sa_all[x]):
            ctx.violation("%s | ShiftAngle defined where no surface is closed" % mode,
                          dict(config=a.config["label"], x=x, value=float(sa_all[x])), replay=dict(config=a.config))
        if closed_x.get(x, False) and not np.isfinite(sa_all[x]):
            ctx.violation("%s | ShiftAngle undefined on a closed surface" % mode,
                          dict(config=a.config["label"], x=x), replay=dict(config=a.config))
    # dphidy and ShiftTorsion, recomputed from the region's own arrays
    for reg in side["regions"]:
        A = reg["arrays"]
        for loc in ("centre", "xlow", "ylow"):
            if loc not in A["dphidy"]:
                continue
            want = A["hy"][loc] * A["Btxy"][loc] / (A["Bpxy"][loc] * A["Rxy"][loc])
            if np.max(np.abs(A["dphidy"][loc] - want)) > 1e-13 * max(1.0, np.max(np.abs(want))):
                V("dphidy differs from hy*Btxy/(Bpxy*Rxy) | %s" % loc, reg, {})
        pv = reg["psi_vals"]
        dxc = (pv[2::2] - pv[:-2:2])[:, None]
        dp = A["dphidy"]
        st = A["ShiftTorsion"]
        stats["torsion_points"] += st["centre"].size
        w = (dp["xlow"][1:, :] - dp["xlow"][:-1, :]) / dxc
        if np.max(np.abs(st["centre"] - w)) > 1e-10 * max(1.0, np.max(np.abs(w))):
            V("ShiftTorsion differs from the centred x-difference of dphidy | centre", reg, {})
        if "corners" in dp and "ylow" in st:
            w = (dp["corners"][1:, :] - dp["corners"][:-1, :]) / dxc
            if np.max(np.abs(st["ylow"] - w)) > 1e-10 * max(1.0, np.max(np.abs(w))):
                V("ShiftTorsion differs from the centred x-difference of dphidy | ylow", reg, {})
        if "xlow" in st:
            # interior x-faces: difference of the neighbouring centres over the psi
            # difference of those centres
            w = (dp["centre"][1:, :] - dp["centre"][:-1, :]) / (pv[3::2] - pv[1:-2:2])[:, None]
            got = st["xlow"][1:-1, :]
            if got.size:
                stats["torsion_points"] += got.size
                if not np.all(np.isfinite(got)):
                    V("ShiftTorsion is not finite | xlow", reg,
                      dict(dx_xlow_is_zero=bool(np.all(A["dx"].get("xlow", np.zeros(1)) == 0))))
                elif np.max(np.abs(got - w)) > 1e-10 * max(1.0, np.max(np.abs(w))):
                    V("ShiftTorsion differs from the centred x-difference of dphidy | xlow", reg, {})
            # the region's first and last x-face: centred across the join where there is an
            # x-neighbour (its nearest cell centres), one-sided to the face at a radial boundary
            for edge, conn, i_face, i_c, i_cn in (("inner", "inner", 0, 0, -1), ("outer", "outer", -1, -1, 0)):
                nb = regs.get(reg["connections"][conn]) if reg["connections"][conn] is not None else None
                pc = pv[1::2]
                if nb is not None:
                    pcn = nb["psi_vals"][1::2]
                    w = (dp["centre"][i_c, :] - nb["arrays"]["dphidy"]["centre"][i_cn, :]) / (pc[i_c] - pcn[i_cn])
                else:
                    w = (dp["centre"][i_c, :] - dp["xlow"][i_face, :]) / (pc[i_c] - pv[0::2][i_face])
                got = st["xlow"][i_face, :]
                stats["torsion_points"] += got.size
                if not np.all(np.isfinite(got)) or np.max(np.abs(got - w)) > 1e-10 * max(1.0, np.max(np.abs(w))):
                    j = int(np.argmax(np.abs(got - w)))
                    V("ShiftTorsion on a region's %s x-face differs from the difference of dphidy across it | xlow" % edge,
                      reg, dict(y_index=j, got=float(got[j]), want=float(w[j]),
                                neighbour=nb["name"] if nb is not None else None))
    return True


def run(ctx, arts=None, ladder=True):
    if arts is None:
        extra = ladder_members(ctx.tier) if ladder else None
        arts = gu.select(ctx.tier, log=ctx.log, extra=extra)
    arts = gu.rotate(arts, ctx.seed)
    trace.ensure_traces(arts, log=ctx.log)
    stats = dict(increments=0, closed_surfaces=0, torsion_points=0)
    n = refused = skipped = 0
    for a in arts:
        if not a.ok:
            refused += 1
            continue
        if check_artefact(ctx, a, stats):
            n += 1
            ctx.sample(dict(config=a.config["label"]), limit=5)
        else:
            skipped += 1
    ctx.set("evaluations", len(arts))
    ctx.set("distinct_nontrivial", n)
    ctx.set("refused_configurations", refused)
    ctx.set("skipped_zero_toroidal_field", skipped)
    for k, v in stats.items():
        ctx.set(k, v)
    ctx.set("rule", "corpus lattice plus Nfine ladders; non-trivial = generated with Bt != 0 and traced; "
            "every consecutive pair of points of every radial contour is one field-line-integral judgement")
    ctx.set("exhaustive", True)
    ctx.assume("field-line integral: DOP853 (rtol 1e-10) of f_hat(psi)/(R |grad psi_hat|) ds along the "
               "independently traced surface; tolerance 150/Nfine^2 relative")


def replay(ctx, payload):
    from vlib import corpus

    arts = corpus.ensure([payload["replay"]["config"]], log=ctx.log)
    run(ctx, arts, ladder=False)
