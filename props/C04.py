"""C04 - orthogonal grids are orthogonal: radial grid lines follow grad(psi).

E3-grid.  For every orthogonal grid, region and poloidal index (y-faces and centres) the
checker integrates dr/dpsi = grad(psi)/|grad(psi)|^2 of its own interpolant from the
region's separatrix-side point through the region's psi values and compares every grid
point with that curve.  Second clause: |sin beta| of the radial chords shrinks
quadratically when every size is doubled.
"""

import numpy as np
from scipy.integrate import solve_ivp

from ref import trace
from vlib import gridutil as gu

LEVEL = "exploration"


def gradient_line(ref, P0, psis):
    """positions on the integral curve of grad(psi) through P0 at the psi values `psis`
    (psis[0] is P0's own psi)"""
    def rhs(p, y):
        gR, gZ = ref.grad(y[0], y[1])
        g2 = gR * gR + gZ * gZ
        return [gR / g2, gZ / g2]

    if psis[-1] == psis[0]:
        return np.tile(P0, (len(psis), 1))
    sol = solve_ivp(rhs, (psis[0], psis[-1]), list(P0), t_eval=psis, method="DOP853", rtol=1e-11, atol=1e-13)
    if sol.status != 0 or sol.y.shape[1] != len(psis):
        return None
    return sol.y.T


def check_artefact(ctx, a, stats):
    side = a.side
    opts = side["mesh"]["user_options"]
    if not opts.get("orthogonal", True) or opts.get("follow_perpendicular_recover"):
        return False
    ref = gu.ref_for(a)
    rtol = float(opts.get("follow_perpendicular_rtol", 2e-8))
    atol = float(opts.get("follow_perpendicular_atol", 1e-8))
    # positions are integrated with these local tolerances (in metres) and then refined onto
    # their surfaces; calibrated: worst observed on the pinned tree 0.09x this bound
    dtol = 300.0 * (rtol * 2.0 + atol)
    worst = 0.0
    # "through the corresponding point of the separatrix skeleton": every radial segment of one
    # poloidal region is built from the same skeleton, so the regridded skeletons handed to the
    # segments must coincide point by point
    by_eq = {}
    for reg in side["regions"]:
        by_eq.setdefault(reg["eqname"], []).append(reg)
    for eqname, segs in by_eq.items():
        segs = sorted(segs, key=lambda r: r["radialIndex"])
        s0 = segs[0]["skeleton"]
        for sg in segs[1:]:
            stats["skeleton_pairs"] += 1
            sk = sg["skeleton"]
            if sk.shape != s0.shape:
                ctx.violation("orth | radial segments of one region are built from skeletons of different length",
                              dict(config=a.config["label"], region=eqname, shapes=[list(s0.shape), list(sk.shape)]),
                              replay=dict(config=a.config))
                continue
            dd = float(np.hypot(sk[:, 0] - s0[:, 0], sk[:, 1] - s0[:, 1]).max())
            ctx.setmax("worst_skeleton_mismatch_between_radial_segments_m", dd)
            if dd > 1e-7:
                ctx.violation("orth | radial segments of one region start from different separatrix skeleton points",
                              dict(config=a.config["label"], region=eqname, segment=sg["radialIndex"], distance=dd),
                              replay=dict(config=a.config))
    for reg in side["regions"]:
        nx, ny = reg["nx"], reg["ny"]
        inside = reg["radialIndex"] < reg["separatrix_radial_index"]
        pv = reg["psi_vals"]
        pts = np.stack([trace.contour_points(reg, k) for k in range(2 * nx + 1)])  # (2nx+1, 2ny+1, 2)
        pins = np.stack([trace.pinned_points(reg, k) for k in range(2 * nx + 1)])
        order = list(range(2 * nx, -1, -1)) if inside else list(range(2 * nx + 1))
        for m in range(2 * ny + 1):
            col = pts[order, m, :]
            if pins[:, m].any():
                stats["lines_through_xpoint_skipped"] += 1
                continue
            if not np.all(gu.in_domain(a, col[:, 0], col[:, 1])):
                stats["lines_outside_domain_skipped"] += 1
                continue
            psis = pv[order]
            # start from the actual psi of the first point (it is on its surface to 1e-9)
            line = gradient_line(ref, col[0], psis - psis[0] + float(ref.psi(col[0, 0], col[0, 1])))
            if line is None:
                stats["lines_not_integrable"] += 1
                continue
            d = np.hypot(line[:, 0] - col[:, 0], line[:, 1] - col[:, 1])
            stats["lines"] += 1
            stats["points"] += len(d)
            # end of a region at an X-point: the start point sits next to a saddle of psi and
            # neighbouring gradient lines diverge exponentially; the same tolerance is kept but
            # the class is reported separately
            at_x = (m == 0 and any(p is not None for p in reg["xPointsAtStart"])) or \
                   (m == 2 * ny and any(p is not None for p in reg["xPointsAtEnd"]))
            w = float(d.max())
            worst = max(worst, w / dtol)
            if w > dtol:
                kbad = int(np.argmax(d))
                ctx.violation("orth | grid point off the grad(psi) line through its separatrix-side point%s"
                              % (" (line starts next to an X-point)" if at_x else ""),
                              dict(config=a.config["label"], region=reg["name"], poloidal_point=m,
                                   radial_point=int(order[kbad]), distance=w, tol=dtol),
                              replay=dict(config=a.config))
    ctx.setmax("worst_distance_over_tolerance", worst)
    return True


def max_sin_beta(a):
    """per region: |sin beta| between the radial chord and grad(psi) at every cell (NaN for
    cells touching an X-point or outside the input domain)"""
    ref = gu.ref_for(a)
    out = []
    for reg in a.side["regions"]:
        R, Z = reg["arrays"]["Rxy"], reg["arrays"]["Zxy"]
        dxR = R["xlow"][1:, :] - R["xlow"][:-1, :]
        dxZ = Z["xlow"][1:, :] - Z["xlow"][:-1, :]
        gR, gZ = ref.grad(R["centre"], Z["centre"])
        s = np.abs(dxR * gZ - dxZ * gR) / (np.hypot(dxR, dxZ) * np.hypot(gR, gZ))
        pin, _ = gu.pinned_corner_mask(reg)
        touch = pin[1:, 1:] | pin[1:, :-1] | pin[:-1, 1:] | pin[:-1, :-1]
        dom = gu.in_domain(a, R["centre"], Z["centre"])
        ok = dom & ~touch
        pv = reg["psi_vals"]
        dpsi = np.abs(pv[2::2] - pv[:-2:2])[:, None]
        out.append((np.where(ok, s, np.nan), np.broadcast_to(dpsi, s.shape)))
    return out


def nx_pairs(tier):
    """same poloidal resolution, every nx doubled: the radial chords halve at fixed poloidal
    positions, so |sin beta| must fall by ~4"""
    from vlib import lattice

    out = []
    for g in (("lsn", "cdn") if tier == "quick" else ("lsn", "usn", "cdn", "udn", "ldn")):
        for f, tag in ((1, "nx1"), (2, "nx2")):
            o = dict(nx_core=2 * f, nx_sol=2 * f)
            if g in ("udn", "ldn"):
                o["nx_inter_sep"] = f
            out.append(lattice.mk(g, True, opt=o, tags=["nxpair", tag]))
    return out


def run(ctx, arts=None, pairs=True):
    if arts is None:
        arts = gu.select(ctx.tier, log=ctx.log, extra=nx_pairs(ctx.tier) if pairs else None)
    arts = gu.rotate(arts, ctx.seed)
    stats = dict(lines=0, points=0, lines_through_xpoint_skipped=0, lines_outside_domain_skipped=0,
                 lines_not_integrable=0, skeleton_pairs=0)
    n = refused = 0
    for a in arts:
        if not a.ok:
            refused += 1
            continue
        if check_artefact(ctx, a, stats):
            n += 1
            ctx.sample(dict(config=a.config["label"]), limit=5)
    # second-order clause on the doubling pairs
    if pairs:
        sb = {}
        for a in arts:
            if a.ok and "nxpair" in a.config.get("tags", []):
                key = a.config["geom"]
                sb.setdefault(key, {})["res2" if "nx2" in a.config["tags"] else "res1"] = max_sin_beta(a)
        ratios = {}
        for key, d in sb.items():
            if len(d) == 2:
                rs = []
                for (c, dc), (f, df) in zip(d["res1"], d["res2"]):
                    # second order: sin(beta) = C * dpsi^2 with C a smooth function of position,
                    # so q = sin(beta)/dpsi^2 of a fine cell equals that of the coarse cell
                    # containing it; first order would double q
                    qc = c / dc**2
                    qf = f / df**2
                    with np.errstate(invalid="ignore", divide="ignore"):
                        r = np.fmax(qf[0::2, :], qf[1::2, :]) / qc
                    rs += r[np.isfinite(r) & (c > 1e-5)].tolist()
                if not rs:
                    continue
                med = float(np.median(rs))
                ratios[key] = dict(cells=len(rs), median_q_ratio=med, max_q_ratio=float(np.max(rs)),
                                   max_coarse=float(np.nanmax([np.nanmax(c) for c, _ in d["res1"]])),
                                   max_fine=float(np.nanmax([np.nanmax(f) for f, _ in d["res2"]])))
                if med > 1.4:
                    ctx.violation("orth | |sin beta| of the radial chords does not shrink quadratically when nx is doubled",
                                  dict(case=key, **ratios[key]), replay=dict(kind="pairs"))
        ctx.set("sin_beta_doubling", ratios)
    ctx.set("evaluations", len(arts))
    ctx.set("distinct_nontrivial", n)
    ctx.set("refused_or_nonorthogonal_skipped", len(arts) - n)
    for k, v in stats.items():
        ctx.set(k, v)
    ctx.set("rule", "orthogonal members of the corpus lattice plus doubling pairs; every (region, poloidal "
            "point) is one gradient-line judgement covering all 2nx+1 radial points")
    ctx.set("exhaustive", True)
    ctx.assume("gradient lines: DOP853 (rtol 1e-11) on the checker's interpolant, started at the grid's own "
               "separatrix-side point of each region; tolerance 300*(2*follow_perpendicular_rtol + atol)")


def replay(ctx, payload):
    from vlib import corpus

    rp = payload["replay"]
    if rp.get("kind") == "pairs":
        run(ctx)
        return
    arts = corpus.ensure([rp["config"]], log=ctx.log)
    run(ctx, arts, pairs=False)
