"""C12 - a valid grid or an explicit error; shipped reference inputs generate.

E3-grid over (a) the whole corpus (every successful grid goes through the validator),
(b) a hostile lattice of single deviations expected to be refused or to stress the
guards, (c) rejection of unknown / inconsistent / invalid options, (d) the shipped example
and reference inputs through their own entry points.
"""

import copy
import json
import os
import sys

import numpy as np

from engine import topo
from ref import exactgeom as eg
from vlib import corpus, families, gridutil as gu, lattice

LEVEL = "exploration"

SCALARS = ["nx", "ny", "y_boundary_guards", "ixseps1", "ixseps2", "jyseps1_1", "jyseps2_1", "jyseps1_2",
           "jyseps2_2", "ny_inner", "Bt_axis", "curvature_type"]
# psi_axis / psi_bdry exist only for equilibria with an O-point and an X-point, like the
# *_gfile values exist only for geqdsk input
TOKAMAK_SCALARS = ["psi_axis", "psi_bdry"]
FIELDS3 = ["Rxy", "Zxy", "psixy", "dx", "dy", "poloidal_distance", "Brxy", "Bzxy", "Bpxy", "Btxy", "Bxy", "hy",
           "dphidy", "ShiftTorsion", "zShift", "g11", "g22", "g33", "g12", "g13", "g23", "J", "g_11", "g_22",
           "g_33", "g_12", "g_13", "g_23", "curl_bOverB_x", "curl_bOverB_y", "curl_bOverB_z", "bxcvx", "bxcvy",
           "bxcvz", "y-coord", "theta", "chi"]
CORNERS = ["_corners", "_lower_right_corners", "_upper_right_corners", "_upper_left_corners"]
NAN_OK = {"chi", "chi_xlow", "chi_ylow", "ShiftAngle", "total_poloidal_distance"}
STRINGS = ["hypnotoad_inputs", "hypnotoad_inputs_yaml"]


def validate_file(nc, label, q=1e-6, tokamak=True):
    """list of (signature, detail) problems of one grid file (dict from corpus.Artefact.nc)"""
    P = []

    def bad(sig, **d):
        d["config"] = label
        P.append((sig, d))

    for k in SCALARS + (TOKAMAK_SCALARS if tokamak else []) + ["closed_wall_R", "closed_wall_Z", "penalty_mask", "total_poloidal_distance", "ShiftAngle"] + STRINGS:
        if k not in nc:
            bad("documented variable missing: %s" % k)
    if any(k not in nc for k in ("nx", "ny", "y_boundary_guards", "Rxy")):
        return P
    nx = int(nc["nx"])
    nyf = nc["Rxy"].shape[1]
    orth_file = "hthe" in nc
    for name in FIELDS3:
        for suf in ("", "_xlow", "_ylow"):
            v = name + suf
            if v not in nc:
                bad("documented variable missing: %s" % v)
                continue
            a = nc[v]
            if getattr(a, "shape", None) != (nx, nyf):
                bad("variable has the wrong shape: %s" % v, shape=list(getattr(a, "shape", ())), expected=[nx, nyf])
                continue
            if v not in NAN_OK and not np.all(np.isfinite(a)):
                idx = tuple(map(int, np.argwhere(~np.isfinite(a))[0]))
                bad("non-finite values in %s" % v, index=list(idx), n=int((~np.isfinite(a)).sum()))
    for c in CORNERS:
        for n in ("Rxy", "Zxy"):
            if n + c not in nc or nc[n + c].shape != (nx, nyf):
                bad("corner variable missing or wrong shape: %s" % (n + c))
            elif not np.all(np.isfinite(nc[n + c])):
                bad("non-finite values in %s" % (n + c))
    for v in ("total_poloidal_distance", "ShiftAngle"):
        if v in nc and getattr(nc[v], "shape", None) != (nx,):
            bad("variable has the wrong shape: %s" % v, shape=list(getattr(nc[v], "shape", ())))
    if "penalty_mask" in nc:
        pm = nc["penalty_mask"]
        if pm.shape != (nx, nyf) or not np.all((pm >= 0) & (pm <= 1)):
            bad("penalty_mask has the wrong shape or values outside [0,1]")
    for v in ("hy", "hy_xlow", "hy_ylow", "dy", "dy_xlow", "dy_ylow"):
        if v in nc and not np.all(nc[v] > 0):
            bad("%s is not strictly positive" % v, n=int((~(nc[v] > 0)).sum()))
    if P:
        return P
    # folded cells.  Cell edges are curves (flux surfaces and radial grid lines), so straight
    # chords of the coarse, strongly curved cells of a minimal grid may cross although the
    # grid is fine.  For a flux-aligned structured grid "no cell folded over" means: the points
    # are strictly ordered radially (psi strictly monotonic in x, one direction for the
    # whole grid) and strictly ordered along every flux surface (every step between
    # consecutive points goes along the poloidal field direction of the file, with the single
    # sign of Bpxy).  File values only.
    f_int = {k: int(nc[k]) for k in topo.INTS}
    try:
        yup, _, _ = topo.bout_neighbours(f_int, nx, int(nc["ny"]), int(nc["y_boundary_guards"]))
    except Exception:  # noqa: BLE001 - reported by the topology check below
        yup = None
    px, pc = nc["psixy_xlow"], nc["psixy"]
    d1 = pc - px
    d2 = px[1:, :] - pc[:-1, :]
    sx = set(np.sign(d1).ravel().tolist()) | set(np.sign(d2).ravel().tolist())
    if sx not in ({1.0}, {-1.0}):
        idx = tuple(map(int, np.argwhere(np.sign(d1) != np.sign(d1[0, 0]))[0])) if np.any(np.sign(d1) != np.sign(d1[0, 0])) else None
        bad("psi is not strictly monotonic in x (cells folded radially)", first=list(idx) if idx else None)
    sb = set(np.sign(nc["Bpxy"]).ravel().tolist())
    if len(sb) != 1 or 0.0 in sb:
        bad("Bpxy does not have one sign in the whole grid")
    else:
        sB = sb.pop()
        R, Z = nc["Rxy"], nc["Zxy"]
        Ry, Zy = nc["Rxy_ylow"], nc["Zxy_ylow"]
        Rx, Zx = nc["Rxy_xlow"], nc["Zxy_xlow"]

        def along(dR, dZ, loc):
            return np.sign(dR * nc["Brxy" + loc] + dZ * nc["Bzxy" + loc]) == sB

        ok = along(R - Ry, Z - Zy, "") & along(R - Ry, Z - Zy, "_ylow")
        ok &= along(Rx - nc["Rxy_corners"], Zx - nc["Zxy_corners"], "_xlow")
        ok &= along(nc["Rxy_upper_left_corners"] - Rx, nc["Zxy_upper_left_corners"] - Zx, "_xlow")
        if yup is not None:
            for i in range(nx):
                for j in range(nyf):
                    m = yup[i][j]
                    if m is None:
                        continue
                    dR, dZ = Ry[i, m] - R[i, j], Zy[i, m] - Z[i, j]
                    if np.sign(dR * nc["Brxy"][i, j] + dZ * nc["Bzxy"][i, j]) != sB or \
                            np.sign(dR * nc["Brxy_ylow"][i, m] + dZ * nc["Bzxy_ylow"][i, m]) != sB:
                        ok[i, j] = False
        if not ok.all():
            idx = tuple(map(int, np.argwhere(~ok)[0]))
            bad("points are not ordered along the flux surface (cell folded poloidally)", cell=list(idx), n=int((~ok).sum()))
    # topology integers: adjacency exhibited by the corners equals the BOUT++ reading
    f = {k: v for k, v in nc.items() if not k.startswith("__") and not isinstance(v, str)}
    probs, _ = topo.check_file(f, None, q=q, real=True)
    for sig, d in probs[:4]:
        bad("topology: " + sig, **d)
    return P


# ---- hostile lattice ------------------------------------------------------------------
def hostile(tier):
    """(config, expectation): expectation 'any' = exception or valid grid;
    'reject' = must raise (unknown / inconsistent / invalid options)"""
    mk = lattice.mk
    H = []

    def add(c, expect="any"):
        c = copy.deepcopy(c)
        c["options"].pop("refine_timeout", None)  # keep the library's own guard on
        c["tags"] = ["hostile"]
        c["watchdog_s"] = 600
        H.append((c, expect))

    add(mk("lsn", True, opt=dict(ny_inner_divertor=1)))
    add(mk("lsn", True, opt=dict(ny_sol=2)))
    add(mk("lsn", True, opt=dict(psinorm_core=1.02)))
    add(mk("lsn", True, opt=dict(psinorm_sol=1.8)))
    add(mk("cdn", True, opt=dict(nx_inter_sep=2)))
    add(mk("udn", True, opt=dict(nx_inter_sep=0)))
    # connected gridding of an unbalanced double null with different inner and outer SOL widths:
    # the second X-point lies beyond the first inner SOL surface but within the first outer one
    add(mk("udn", True, opt=dict(nx_inter_sep=0, psinorm_sol_inner=1.02, psinorm_sol=1.3)))
    add(mk("udn1", True, opt=dict(nx_inter_sep=0, psinorm_sol_inner=1.01, psinorm_sol=1.3)))
    add(mk("udn1", False, opt=dict(nx_inter_sep=0, psinorm_sol_inner=1.3, psinorm_sol=1.01)))
    add(mk("lsn", True, opt=dict(xpoint_poloidal_spacing_length=1.0)))
    add(mk("lsn", True, opt=dict(xpoint_poloidal_spacing_length=0.0025)))
    add(mk("lsn", True, opt=dict(finecontour_maxits=1)))
    add(mk("lsn", True, opt=dict(follow_perpendicular_maxits=5)))
    add(mk("lsn", True, opt=dict(follow_perpendicular_maxits=5, follow_perpendicular_recover=True)))
    add(mk("lsn", True, wall="W5"))
    add(mk("cdn", True, wall="W4"))
    add(mk("lsn", False, opt=dict(target_all_poloidal_spacing_length=20.0)))
    add(mk("lsn", True, opt=dict(curvature_type="bxkappa")))
    add(mk("lsn", True, opt=dict(shiftedmetric=False)))
    add(mk("lsn", True, opt=dict(cap_Bp_ylow_xpoint=True)))
    if tier == "thorough":
        for g in ("usn", "cdn", "udn", "ldn"):
            add(mk(g, True, opt=dict(ny_inner_divertor=2) if g == "usn" else dict(ny_inner_lower_divertor=2)))
            add(mk(g, False, opt=dict(psinorm_sol=1.5)))
            add(mk(g, True, opt=dict(psi_spacing_separatrix_multiplier=20.0)))
            add(mk(g, True, opt=dict(psi_spacing_separatrix_multiplier=0.01)))
            add(mk(g, False, opt=dict(xpoint_poloidal_spacing_length=0.05)))
            add(mk(g, True, opt=dict(finecontour_Nfine=5)))
        add(mk("lsn", False, opt=dict(y_boundary_guards=4)))
        add(mk("lsn", True, nR=9, nZ=11))
        # (refine_methods="none" is documented as "no refinement (always succeeds)": like
        # follow_perpendicular_recover it is an explicit request for points that are not on
        # their surfaces, and is not a member)
        add(mk("lsn", True, opt=dict(refine_atol=1e-3)))
    # inconsistent between equilibrium and mesh: must be rejected
    # (options owned by both the equilibrium and the mesh; keys the mesh does not own are
    # unknown to it and ignored by the options factory, like any unknown key at API level)
    for key, val in (("y_boundary_guards", 2), ("orthogonal", False), ("finecontour_Nfine", 60),
                     ("refine_atol", 1e-6), ("poloidal_spacing_method", "linear")):
        c = mk("lsn", True)
        c["mesh_options_override"] = {key: val}
        add(c, "reject")
    for key, val in (("psinorm_sol", 1.05), ("nx_core", 3)):
        c = mk("lsn", True)
        c["mesh_options_override"] = {key: val}
        add(c, "any")
    # invalid values and types: must be rejected
    for key, val in (("nx_core", 0), ("nx_core", -2), ("nx_core", 2.5), ("ny_sol", "four"),
                     ("y_boundary_guards", -1), ("poloidal_spacing_method", "cubic"),
                     ("psi_interpolation_method", "linear"), ("curvature_type", "none"),
                     ("finecontour_Nfine", 0), ("orthogonal", "yes"), ("xpoint_offset", 1.5),
                     ("number_of_processors", 0), ("refine_atol", -1.0)):
        add(mk("lsn", True, opt={key: val}), "reject")
    return H


def cli_cases(tier):
    out = []
    # unknown keys through the command-line entry points: must be rejected
    out.append((dict(family="cli-geqdsk", geom="lsn", options=dict(nx_core=2, nx_sol=2, ny_inner_divertor=3,
                ny_outer_divertor=3, ny_sol=4, no_such_option=1), label="cli-geqdsk unknown key"), "reject"))
    out.append((dict(family="cli-geqdsk", geom="lsn", options=dict(nx_core=2, nx_sol=2, ny_inner_divertor=3,
                ny_outer_divertor=3, ny_sol=4, nx_croe=3), label="cli-geqdsk misspelt key"), "reject"))
    out.append((dict(family="cli-circular", options=dict(nx=4, ny=8, bogus_key=True), label="cli-circular unknown key"), "reject"))
    # every way a valid name degenerates into an invalid one: truncated at either end, an
    # interior fragment, a single character, transposed letters, doubled letter, wrong case
    base_g = dict(nx_core=2, nx_sol=2, ny_inner_divertor=3, ny_outer_divertor=3, ny_sol=4)
    for bad in ("ny_inner", "_divertor", "boundary_guard", "n", "nx_cor", "nx_coer", "nx_corre", "NX_CORE",
                "psinorm", "orthogona", "sol"):
        out.append((dict(family="cli-geqdsk", geom="lsn", options=dict(base_g, **{bad: 3}),
                         label="cli-geqdsk degenerate key %r" % bad), "reject"))
    for bad in ("n", "r_inne", "_inner", "NX", "nxx", "oundary"):
        out.append((dict(family="cli-circular", options=dict(nx=4, ny=8, **{bad: 3}),
                         label="cli-circular degenerate key %r" % bad), "reject"))
    # shipped inputs: must generate
    out.append((dict(family="cli-circular", options=dict(), label="hypnotoad-circular defaults"), "ok"))
    # the geqdsk files these two were written for are not shipped (git-lfs pointers), so on
    # our analytic equilibria only "every option in the file is accepted" can be demanded
    out.append((dict(family="cli-geqdsk", geom="cdn", yaml_file="geqdsk_cdn.yaml", label="shipped geqdsk_cdn.yaml"), "options-accepted"))
    out.append((dict(family="cli-geqdsk", geom="ldn", yaml_file="geqdsk_ldn.yaml", label="shipped geqdsk_ldn.yaml"), "options-accepted"))
    geos = ("lsn", "cdn") if tier == "quick" else ("lsn", "usn", "cdn", "udn", "ldn", "udn2")
    for g in geos:
        out.append((dict(family="example", geometry=g, label="examples/tokamak %s" % g, step_timeout=1500, watchdog_s=1600), "ok"))
    if tier == "thorough":
        for yml in ("integrated_tests/connected_doublenull_orthogonal/test_orthogonal.yml",
                    "integrated_tests/connected_doublenull_nonorthogonal/test_nonorthogonal.yml"):
            # written for the git-lfs geqdsk of the integrated tests (tolerances 1e-15..1e-30):
            # on our equilibria only acceptance of every option can be demanded
            out.append((dict(family="cli-geqdsk", geom="cdn", yaml_file=yml, label="shipped " + yml,
                             step_timeout=3000, watchdog_s=3100), "options-accepted"))
    return out


# ---- an option the equilibrium was built with is MISSING from the mesh settings ----------------
DROP_SRC = r"""
import sys, io, contextlib, warnings, json
sys.path.insert(0, %r)
warnings.simplefilter("ignore")
from vlib import families, lattice, genworker
from hypnotoad.core.mesh import BoutMesh
eq_extra, drop = json.loads(sys.argv[1])
c = families.normalise(lattice.mk("lsn", True, opt=eq_extra))
inp = families.build_inputs(c)
inp["_fpol_kind"] = c["fpol"]; inp["_pressure_kind"] = c["pressure"]
with contextlib.redirect_stdout(io.StringIO()):
    eq = genworker.build_equilibrium(c, inp, {})
    mo = {k: v for k, v in c["options"].items() if k not in drop}
    try:
        BoutMesh(eq, mo)
        print("OUTCOME=accepted", flush=True)
    except Exception as e:
        sys.stdout = sys.__stdout__
        print("OUTCOME=rejected %%s" %% type(e).__name__, flush=True)
import json
import os
import sys
sys.stdout = sys.__stdout__
os._exit(0)
"""


def mesh_drop_cases():
    """(extra equilibrium options, keys omitted from the mesh's settings): the equilibrium holds a
    non-default value of an option that the mesh also owns; a mesh built from settings that do
    not mention the key would silently use (and record) the default: must be rejected"""
    return [
        (dict(), ["psi_spacing_separatrix_multiplier"]),          # base value 0.5, default None/1
        (dict(), ["y_boundary_guards"]),                           # base value 1, default 0
        (dict(), ["finecontour_Nfine"]),                           # base value 50, default 100
        (dict(psi_interpolation_method="dct"), ["psi_interpolation_method"]),
        (dict(poloidal_spacing_delta_psi=1e-3), ["poloidal_spacing_delta_psi"]),
        (dict(orthogonal=False), ["orthogonal"]),
    ]


def run_drop_case(case):
    import subprocess, signal
    p = subprocess.Popen([sys.executable, "-c", DROP_SRC % (os.path.dirname(os.path.dirname(os.path.abspath(__file__))),),
                          json.dumps(case)], stdout=subprocess.PIPE, stderr=subprocess.DEVNULL, text=True,
                         start_new_session=True, env=dict(os.environ, MPLBACKEND="Agg"))
    try:
        out, _ = p.communicate(timeout=600)
    except subprocess.TimeoutExpired:
        out = "OUTCOME=timeout"
    finally:
        try:
            os.killpg(p.pid, signal.SIGKILL)
        except ProcessLookupError:
            pass
    for line in (out or "").splitlines():
        if line.startswith("OUTCOME="):
            return line[8:]
    return "crashed"


def run(ctx):
    stats = dict(validated_grids=0, hostile=0, hostile_refused=0, hostile_grids=0, must_reject=0,
                 shipped=0, cells_fold_tested=0)
    from concurrent.futures import ThreadPoolExecutor
    dc = mesh_drop_cases()
    with ThreadPoolExecutor(6) as tp:
        for case, res in zip(dc, tp.map(run_drop_case, dc)):
            stats["must_reject"] += 1
            stats["mesh_settings_missing_a_key_cases"] = stats.get("mesh_settings_missing_a_key_cases", 0) + 1
            if not res.startswith("rejected"):
                ctx.violation("invalid, unknown or inconsistent option accepted silently | mesh settings omit an option "
                              "the equilibrium was built with a non-default value of",
                              dict(equilibrium_extra=case[0], omitted=case[1], outcome=res),
                              replay=dict(kind="drop", case=case))
    arts = gu.rotate(gu.select(ctx.tier, log=ctx.log), ctx.seed)
    H = hostile(ctx.tier)
    CL = cli_cases(ctx.tier)
    h_arts = corpus.ensure([c for c, _ in H] + [c for c, _ in CL], log=ctx.log, timeout=700)
    outcome_classes = set()

    def judge_grid(a, label):
        probs = validate_file(a.nc, label, tokamak=a.config.get("family", "G") not in ("cli-circular", "X"))
        stats["validated_grids"] += 1
        stats["cells_fold_tested"] += int(a.nc["Rxy"].size) if "Rxy" in a.nc else 0
        for sig, d in probs[:6]:
            mode = ""
            ctx.violation("malformed grid written | " + sig, d, replay=dict(config=a.config))

    rerun = []
    for a in arts:
        if a.ok:
            judge_grid(a, a.config["label"])
        elif a.outcome == "timeout":
            # our own refine_timeout=None removed the library's guard against a non-terminating
            # refinement: not a verdict.  Re-run with the default refine_timeout; only a run that
            # neither raises nor finishes with the guard ON is a violation.
            c2 = copy.deepcopy({k: v for k, v in a.config.items() if k not in ("label", "tags")})
            c2["options"].pop("refine_timeout", None)
            c2["label"] = a.config["label"] + " [re-run with default refine_timeout]"
            c2["tags"] = ["rerun"]
            c2["watchdog_s"] = 1500
            rerun.append(c2)
    if rerun:
        stats["timeouts_without_guard_rerun"] = len(rerun)
        for a in corpus.ensure(rerun, log=ctx.log, timeout=1500):
            if a.ok:
                judge_grid(a, a.config["label"])
            elif a.outcome in ("timeout", "crash"):
                ctx.violation("generation neither raised an exception nor finished (library guards on)",
                              dict(config=a.config["label"], outcome=a.outcome), replay=dict(config=a.config))
            else:
                stats["hostile_refused"] += 1
    for (c, expect), a in zip(H + CL, h_arts):
        label = c.get("label", "?")
        is_cli = c.get("family", "G") != "G"
        if not is_cli:
            stats["hostile"] += 1
        outcome_classes.add((a.outcome, (a.meta.get("exc_type") or a.meta.get("exc_msg") or "")[:40]))
        ctx.sample(dict(config=label, expect=expect, outcome=a.outcome,
                        error=(a.meta.get("exc_type", "") + ": " + (a.meta.get("exc_msg") or ""))[:120]), limit=12)
        if a.outcome == "timeout" or a.outcome == "crash":
            ctx.violation("generation neither raised an exception nor finished (library guards on)",
                          dict(config=label, outcome=a.outcome, watchdog_s=a.meta.get("watchdog_s")),
                          replay=dict(config=c))
            continue
        if expect == "reject":
            stats["must_reject"] += 1
            if a.ok:
                ctx.violation("invalid, unknown or inconsistent option accepted silently",
                              dict(config=label, option=c.get("mesh_options_override") or c.get("options")),
                              replay=dict(config=c))
            continue
        if expect == "options-accepted":
            stats["shipped"] += 1
            msg = (a.meta.get("exc_msg") or "")
            if not a.ok and ("not used" in msg or "is not compatible" in msg or "not one of" in msg
                             or "not in the allowed" in msg or "KeyError" in msg):
                ctx.violation("shipped option file is rejected by the entry point it was written for",
                              dict(config=label, error=msg), replay=dict(config=c))
                continue
        if expect == "ok":
            stats["shipped"] += 1
            if not a.ok:
                ctx.violation("shipped example / reference input does not generate",
                              dict(config=label, error=a.meta.get("exc_msg"),
                                   tail=(a.meta.get("steps") or [{}])[-1].get("tail", "")[-400:]),
                              replay=dict(config=c))
                continue
        if a.ok:
            stats["hostile_grids"] += 1
            judge_grid(a, label)
        else:
            stats["hostile_refused"] += 1
    ctx.set("evaluations", len(arts) + len(h_arts))
    ctx.set("distinct_nontrivial", stats["validated_grids"] + stats["hostile_refused"])
    ctx.set("distinct_outcome_classes", len(outcome_classes))
    for k, v in stats.items():
        ctx.set(k, v)
    ctx.set("rule", "corpus lattice + hostile single deviations + option-rejection lattice + shipped inputs; "
            "non-trivial = a grid that went through the validator or an explicit refusal; outcome classes = "
            "distinct (outcome, exception) pairs observed")
    ctx.set("exhaustive", True)
    ctx.assume("validator: documented variable list frozen from doc/grid-file.rst and fields_to_output; fold "
               "test and orientation by exact rational arithmetic on the four corner arrays; hostile "
               "configurations keep the library's default refine_timeout and run under a 600 s watchdog")


def replay(ctx, payload):
    c = payload["replay"]["config"]
    a = corpus.ensure([c], log=ctx.log, timeout=700)[0]
    print("outcome:", a.outcome, a.meta.get("exc_type"), a.meta.get("exc_msg"))
    if a.ok:
        for sig, d in validate_file(a.nc, c.get("label", "?")):
            ctx.violation("malformed grid written | " + sig, d, replay=dict(config=c))
