"""C17 - geqdsk write/read round trip and fixed-width parsing.

E3-pure, full product lattice.  A data set is built for every lattice point
(nx, ny, optional blocks, boundary count, limiter count, header variant) with values drawn
from a fixed alphabet (zeros, units, extremes with two-digit exponents, values whose tenth
digit rounds up into a new decade, an exact tie) laid over every number of the file by a
position-dependent pattern.  Oracles (reference: ref/c17_ref.py, written from the format
definition with ``decimal`` arithmetic, no ``%E``):

 A  read(write(d)) == d rounded to ten significant digits, exactly, field by field, psi
    index order included; optional entries absent -> zeros / no boundary keys.
 B  a strict 5e16.9 / 2i5 fixed-column reader of the text written by hypnotoad returns
    exactly what hypnotoad's read returns.
 C  the same data set written by the reference writer in strict fixed-width fields
    (negative numbers abut their left neighbour, 1PE16.9 and plain E16.9 "0.ddd" styles,
    strictly conforming (6a8,3i4) header) is read by hypnotoad to exactly the values the
    text holds.
 D  read_geqdsk builds an equilibrium whose R/Z extent, psi(R_i, Z_j), fpol/pressure on the
    psi profile grid and wall are what the format defines (separate lattice of smooth
    data).
"""

import contextlib
import io
import itertools
import math
import re
import time
import warnings
from concurrent.futures import ProcessPoolExecutor
from fractions import Fraction

import numpy as np

from ref import c17_ref as ref

LEVEL = "exploration"

# ---------------------------------------------------------------------------------------
# value alphabet.  Length 19: coprime with the 5-per-line chunking and with every nx of the
# lattice (1..7, 11, 65), so that every (column, value class) pair occurs in every field.
# entries marked G ("generic") are multiplied by the seed phase's irrational factor in the
# additional seed lattice; the others are boundary cases of the format and stay fixed.
ALPHABET = [
    ("zero", 0.0, False),
    ("one", 1.0, False),
    ("minus_one", -1.0, False),
    ("pi10", 3.141592654, True),
    ("minus_pi10", -3.141592654, True),
    ("max", 9.999999999e99, False),
    ("minus_max", -9.999999999e99, False),
    ("min", 1.0e-99, False),
    ("minus_min", -1.0e-99, False),
    ("roundup_decade", 9.9999999996, False),  # -> 1.000000000E+01
    ("minus_roundup_decade", -9.9999999996, False),
    ("roundup_to_one", 0.99999999996, False),  # -> 1.000000000E+00
    ("roundup_into_two_digit_exp_small", 9.9999999996e-100, False),  # -> 1.000000000E-99
    ("minus_roundup_into_two_digit_exp_big", -9.9999999996e9, False),  # -> -1.000000000E+10
    ("exact_tie", 1234567.8125, False),  # 11 digits, dyadic: tie at the tenth digit
    ("minus_avogadro", -6.02214076e23, True),
    ("tiny_mid", 2.5e-50, True),
    ("seventeen_digits", 0.1 + 0.2, True),
    ("minus_big_mid", -7.25e61, True),
]
NA = len(ALPHABET)

# eight pre-declared seed phases: (pattern phase shift, irrational factor for G entries)
SEED_PHASES = [
    (1, math.sqrt(2.0)),
    (2, math.pi / 3.0),
    (3, math.e / 2.0),
    (4, (1.0 + math.sqrt(5.0)) / 2.0),
    (6, math.sqrt(3.0)),
    (7, 2.0 * math.log(2.0)),
    (8, math.sqrt(5.0) / 2.0),
    (9, math.sqrt(7.0) / 3.0),
]

SHAPES_QUICK = [1, 2, 3, 4, 5, 6, 7, 11, 65]
SHAPES_THOROUGH = [1, 2, 3, 4, 5, 6, 7, 11, 65]
OPTIONAL = [(), ("ffprime",), ("pprime",), ("ffprime", "pprime")]
COUNTS = [None, 0, 1, 2, 5, 6]  # None: keys absent from the data set
LABELS = [None, "X", "ELEVENCHARS", "TWELVE_CHARS", "A_LABEL_OF_TWENTY_CHR", "EFIT 2 5"]
SHOTS = [None, 123456, "s1 2"]
TIMES = [None, 250, "12.5 s"]
HEADERS = list(itertools.product(range(len(LABELS)), range(len(SHOTS)), range(len(TIMES))))

SCALARS = ref.SCALARS
FIELDS = SCALARS + ["fpol", "pres", "ffprime", "pprime", "psi", "qpsi", "rbdry", "zbdry",
                    "rlim", "zlim"]
FIELD_OFFSET = {name: 3 * k for k, name in enumerate(FIELDS)}


def alphabet_values(phase_id):
    """phase_id -1: base alphabet; 0..7: seed phase"""
    if phase_id < 0:
        return [v for _, v, _ in ALPHABET]
    fac = SEED_PHASES[phase_id][1]
    vals = [v * fac if g else v for _, v, g in ALPHABET]
    return vals


def build_dataset(nx, ny, opt, nb, nl, phase_id, with_classes=False):
    """Deterministic data set for one lattice point.  The m-th number of field f is
    alphabet[(m + FIELD_OFFSET[f] + shift) % 19], shift from the lattice coordinates."""
    vals = np.array(alphabet_values(phase_id))
    shift = nx + 2 * ny + 3 * len(opt) + 5 * (0 if nb is None else nb + 1) \
        + 7 * (0 if nl is None else nl + 1)
    if opt == ("pprime",):
        shift += 1
    if phase_id >= 0:
        shift += SEED_PHASES[phase_id][0]
    classes = {}

    def idx(name, n):
        k = (np.arange(n) + FIELD_OFFSET[name] + shift) % NA
        classes[name] = k
        return k

    d = {"nx": nx, "ny": ny}
    for s in SCALARS:
        d[s] = float(vals[idx(s, 1)][0])
    for a in ("fpol", "pres", "qpsi") + tuple(opt):
        d[a] = vals[idx(a, nx)]
    # psi: flat position m = i + nx*j (the order of the file), stored as psi[i, j]
    k = idx("psi", nx * ny)
    d["psi"] = vals[k].reshape((ny, nx)).T.copy()
    if nb is not None:
        k = idx("rbdry", 2 * nb)  # pairs r,z interleaved in the file
        d["rbdry"], d["zbdry"] = vals[k[0::2]], vals[k[1::2]]
        classes["zbdry"] = k[1::2]
        classes["rbdry"] = k[0::2]
    if nl is not None:
        k = idx("rlim", 2 * nl)
        d["rlim"], d["zlim"] = vals[k[0::2]], vals[k[1::2]]
        classes["zlim"] = k[1::2]
        classes["rlim"] = k[0::2]
    if with_classes:
        return d, classes
    return d


def header_args(h):
    li, si, ti = HEADERS[h]
    return LABELS[li], SHOTS[si], TIMES[ti]


def expected_of(d):
    """field -> (E_half_even, E_half_up) arrays/scalars of acceptable results"""
    out = {}
    for name, v in d.items():
        if name in ("nx", "ny"):
            continue
        a = np.asarray(v, dtype=float)
        flat = [ref.rounded10(float(x)) for x in a.ravel()]
        e0 = np.array([c[0] for c in flat]).reshape(a.shape)
        e1 = np.array([c[-1] for c in flat]).reshape(a.shape)
        out[name] = (e0, e1)
    return out


def compare(got, d, exp, what, nonfloat_ok=False):
    """list of (field, problem) between dictionary `got` returned by a reader and the
    expectation; exp: name -> (e0, e1)"""
    bad = []
    nx, ny = d["nx"], d["ny"]
    for n in ("nx", "ny"):
        if not (isinstance(got.get(n), (int, np.integer)) and got[n] == d[n]):
            bad.append((n, "got %r expected %r" % (got.get(n), d[n])))
    zeros = (np.zeros(nx), np.zeros(nx))
    for name in SCALARS + ["fpol", "pres", "ffprime", "pprime", "psi", "qpsi"]:
        e0, e1 = exp.get(name, zeros)
        if name not in got:
            bad.append((name, "missing"))
            continue
        g = np.asarray(got[name])
        if g.shape != e0.shape:
            bad.append((name, "shape %r expected %r" % (g.shape, e0.shape)))
            continue
        if g.dtype.kind != "f":
            bad.append((name, "dtype %s" % g.dtype))
            continue
        ok = (g == e0) | (g == e1)
        if not np.all(ok):
            w = np.argwhere(~ok)
            i = tuple(int(x) for x in w[0])
            bad.append((name, "index %r got %r expected %r (%d wrong)"
                        % (i, float(g[i]), float(e0[i]), len(w))))
    for r, z, cnt in (("rbdry", "zbdry", "nb"), ("rlim", "zlim", "nl")):
        n = len(d[r]) if r in d else 0
        for name in (r, z):
            if n == 0:
                if name in got and len(got[name]) != 0:
                    bad.append((name, "present with %d points, none written" % len(got[name])))
                continue
            if name not in got:
                bad.append((name, "missing, %d points written" % n))
                continue
            g = np.asarray(got[name])
            e0, e1 = exp[name]
            if g.shape != e0.shape:
                bad.append((name, "shape %r expected %r" % (g.shape, e0.shape)))
                continue
            ok = (g == e0) | (g == e1)
            if not np.all(ok):
                i = int(np.argwhere(~ok)[0][0])
                bad.append((name, "index %d got %r expected %r" % (i, float(g[i]), float(e0[i]))))
    return bad


def text_expectation(text, nx, ny):
    """what a text written by the *reference* writer holds: python float() of each
    16-character field (independent of hypnotoad's tokeniser)"""
    r = ref.read_strict(text, nx, ny)
    return {k: (np.asarray(v, dtype=float), np.asarray(v, dtype=float))
            for k, v in r.items() if k not in ("nx", "ny", "nbdry", "nlim")}


_ABUT = re.compile(r"E[+-]\d\d-")


def _fmt0p(v):
    s = ref.e16_9_0p(v)
    if s is None:  # exponent would need three digits in the 0.ddd style: scale down
        s = ref.e16_9_0p(v / 1000.0)
    return s


def hread(text):
    from hypnotoad.geqdsk import _geqdsk

    with contextlib.redirect_stdout(io.StringIO()):
        return _geqdsk.read(io.StringIO(text))


def hwrite(d, label, shot, time_):
    from hypnotoad.geqdsk import _geqdsk

    fh = io.StringIO()
    with contextlib.redirect_stdout(io.StringIO()):
        _geqdsk.write(d, fh, label=label, shot=shot, time=time_)
    return fh.getvalue()


def check_case(case):
    """case = (nx, ny, opt_index, nb, nl, header_index, phase_id).  Returns
    (violations, info)"""
    nx, ny, oi, nb, nl, h, phase_id = case
    opt = OPTIONAL[oi]
    d, classes = build_dataset(nx, ny, opt, nb, nl, phase_id, with_classes=True)
    label, shot, time_ = header_args(h)
    viol = []
    info = {"abutting": False, "header_conformant": None, "triples": classes}
    payload = dict(case=list(case))

    def v(sig, **detail):
        detail.update(nx=nx, ny=ny, optional=list(opt), nbdry=nb, nlim=nl,
                      label=label, shot=shot, time=time_, phase=phase_id)
        viol.append((sig, detail, payload))

    exp = expected_of(d)
    dcopy = {k: (np.array(x, copy=True) if isinstance(x, np.ndarray) else x)
             for k, x in d.items()}
    # ---- A: round trip through hypnotoad's writer and reader ---------------------------
    try:
        text = hwrite(d, label, shot, time_)
    except Exception as e:  # noqa: BLE001
        v("write raises %s" % type(e).__name__, error=str(e)[:300])
        return viol, info
    for k, x in dcopy.items():
        if isinstance(x, np.ndarray) and not np.array_equal(x, d[k]):
            v("write modifies its input | %s" % k)
    info["abutting"] = bool(_ABUT.search(text))
    try:
        got = hread(text)
    except Exception as e:  # noqa: BLE001
        v("read(write(d)) raises %s" % type(e).__name__, error=str(e)[:300])
        got = None
    if got is not None:
        for name, prob in compare(got, d, exp, "roundtrip"):
            v("round trip | %s differs from d rounded to ten digits" % _fieldclass(name),
              field=name, problem=prob)
    # ---- B: strict fixed-column reader of hypnotoad's text agrees with hypnotoad's read -
    try:
        sref = ref.read_strict(text, nx, ny)
    except ref.FormatError as e:
        sref = None
        v("written text is not 5e16.9 / 2i5 fixed-width", error=str(e)[:300])
    if sref is not None and got is not None:
        e2 = {k: (np.asarray(x, dtype=float),) * 2 for k, x in sref.items()
              if k not in ("nx", "ny", "nbdry", "nlim")}
        d2 = dict(d)
        for r_, z_ in (("rbdry", "zbdry"), ("rlim", "zlim")):
            # what the reference reader found decides presence
            d2.pop(r_, None), d2.pop(z_, None)
            if r_ in sref:
                d2[r_], d2[z_] = sref[r_], sref[z_]
        for name, prob in compare(got, d2, e2, "refread"):
            v("reference fixed-width reader disagrees with read | %s" % _fieldclass(name),
              field=name, problem=prob)
    try:
        idum, hx, hy = ref.header_sizes_strict(text.split("\n", 1)[0])
        info["header_conformant"] = (hx == nx and hy == ny)
    except ref.FormatError:
        info["header_conformant"] = False
    # ---- C: strict fixed-width text (numbers abutting) written by the reference --------
    desc = ("%s %s %s" % (label or "REF", shot if shot is not None else "", time_ or ""))
    for style, fmt in (("1PE16.9", ref.e16_9), ("E16.9 0.ddd", _fmt0p), ("1PE15.9 no blanks at all", ref.e16_9)):
        stext = ref.write_strict(d, desc, fmt)
        rtext = stext
        if style.startswith("1PE15.9"):
            # writers that use a 15-character field leave no blank before POSITIVE numbers
            # either: every float abuts its left neighbour (exponents have two digits, so
            # the text is unambiguous).  Only lines of floats are squeezed - the header and
            # the integer line "nbdry limitr" keep their blanks.
            hd, _, body = stext.partition("\n")
            rtext = hd + "\n" + "\n".join(ln.replace(" ", "") if ("E" in ln or "e" in ln) else ln
                                          for ln in body.split("\n"))
        try:
            got2 = hread(rtext)
        except Exception as e:  # noqa: BLE001
            v("read raises %s on strict fixed-width text | %s" % (type(e).__name__, style),
              error=str(e)[:300])
            continue
        e3 = text_expectation(stext, nx, ny)
        for name, prob in compare(got2, d, e3, "strict"):
            v("abutting fixed-width text (%s) | %s misread" % (style, _fieldclass(name)),
              field=name, problem=prob)
        if style == "1PE16.9":
            # cross-check of the reference itself: its text holds d rounded to ten digits
            for name, prob in compare({**{k: x[0] for k, x in e3.items()}, "nx": nx, "ny": ny},
                                      d, exp, "self"):
                raise AssertionError("reference writer/reader inconsistent: %s %s" % (name, prob))
    return viol, info


def _fieldclass(name):
    if name in SCALARS:
        return "scalar"
    if name in ("nx", "ny"):
        return "header sizes"
    if name in ("rbdry", "zbdry"):
        return "boundary"
    if name in ("rlim", "zlim"):
        return "limiter"
    return name


def _chunk_worker(cases):
    warnings.simplefilter("ignore")
    viols = []
    n_abut = 0
    n_hdr_bad = 0
    triples = set()
    sample = None
    for case in cases:
        vv, info = check_case(case)
        viols.extend(vv)
        n_abut += info["abutting"]
        if info["header_conformant"] is False:
            n_hdr_bad += 1
        for name, ks in info["triples"].items():
            fi = FIELDS.index(name)
            if name in ("rbdry", "rlim"):
                cols = (2 * np.arange(len(ks))) % 5
            elif name in ("zbdry", "zlim"):
                cols = (2 * np.arange(len(ks)) + 1) % 5
            elif name in SCALARS:
                cols = np.array([SCALARS.index(name) % 5])
            else:
                cols = np.arange(len(ks)) % 5
            triples.update(zip([fi] * len(ks), cols.tolist(), np.asarray(ks).tolist()))
        if sample is None:
            sample = case
    return viols[:50], len(viols), len(cases), n_abut, n_hdr_bad, triples, sample


def lattice(shapes, full_headers, phase_id):
    cases = []
    body = list(itertools.product(range(len(OPTIONAL)), COUNTS, COUNTS))
    for nx in shapes:
        for ny in shapes:
            for b, (oi, nb, nl) in enumerate(body):
                if full_headers:
                    for h in range(len(HEADERS)):
                        cases.append((nx, ny, oi, nb, nl, h, phase_id))
                else:
                    # one header variant per body, cycling so that every (shape, header)
                    # pair occurs (144 bodies >= 54 header variants)
                    h = (b + nx + 3 * ny) % len(HEADERS)
                    cases.append((nx, ny, oi, nb, nl, h, phase_id))
    return cases


def _cost(case):
    return case[0] * case[1] + 60


def run_lattice(ctx, cases):
    # chunks of roughly equal cost
    cases = sorted(cases, key=_cost, reverse=True)
    nchunks = 16 * 12
    chunks = [[] for _ in range(nchunks)]
    loads = [0] * nchunks
    for c in cases:  # greedy by current load (cases sorted descending)
        k = loads.index(min(loads))
        chunks[k].append(c)
        loads[k] += _cost(c)
    chunks = [c for c in chunks if c]
    chunks = chunks[ctx.seed % len(chunks):] + chunks[:ctx.seed % len(chunks)]
    tot = dict(n=0, abut=0, hdr_bad=0, viol=0)
    triples = set()
    with ProcessPoolExecutor(max_workers=16) as ex:
        for viols, nv, n, n_abut, n_hdr_bad, tr, sample in ex.map(_chunk_worker, chunks):
            tot["n"] += n
            tot["abut"] += n_abut
            tot["hdr_bad"] += n_hdr_bad
            tot["viol"] += nv
            triples |= tr
            for sig, detail, payload in viols:
                ctx.violation(sig, detail, replay=payload)
            if sample is not None:
                nx, ny, oi, nb, nl, h, ph = sample
                ctx.sample(dict(nx=nx, ny=ny, optional=list(OPTIONAL[oi]), nbdry=nb, nlim=nl,
                                header=list(header_args(h)), phase=ph), limit=4)
    return tot, triples


# ---------------------------------------------------------------------------------------
# D: read_geqdsk mapping
BOXES = [  # rleft, rdim, zmid, zdim
    (1.0, 1.0, 0.0, 1.4),
    (0.5, 2.0, 0.25, 3.0),
    (1.25, 0.75, -0.375, 1.1),
]
# limiter variants: name -> list of (fractional R, fractional Z) inside the box, or None
LIMITERS = {
    "absent": None,
    "tri_acw": [(0.2, 0.15), (0.85, 0.2), (0.5, 0.9)],
    "quad_cw": [(0.2, 0.15), (0.2, 0.85), (0.8, 0.85), (0.8, 0.15)],
    "pent_acw": [(0.2, 0.2), (0.8, 0.15), (0.9, 0.6), (0.5, 0.9), (0.15, 0.7)],
    "hex_cw": [(0.2, 0.3), (0.15, 0.7), (0.5, 0.9), (0.85, 0.7), (0.8, 0.3), (0.5, 0.1)],
    "two_points": [(0.2, 0.2), (0.8, 0.8)],
    # open contours whose first and last point share R (a straight inner column listed bottom to
    # top) or share Z, and one that repeats its first point at the end as EFIT files do
    "quad_acw_ends_share_R": [(0.2, 0.15), (0.8, 0.15), (0.8, 0.85), (0.2, 0.85)],
    "hex_acw_ends_share_R": [(0.25, 0.2), (0.5, 0.1), (0.8, 0.3), (0.85, 0.7), (0.5, 0.9), (0.25, 0.75)],
    "pent_cw_ends_share_Z": [(0.2, 0.3), (0.15, 0.7), (0.5, 0.9), (0.85, 0.7), (0.8, 0.3)],
    "quad_acw_closed": [(0.2, 0.15), (0.8, 0.15), (0.8, 0.85), (0.2, 0.85), (0.2, 0.15)],
}


def smooth_psi(x, y, sigma):
    """sum of two Gaussians in box-fractional coordinates: O-point near (0.5, 0.5),
    X-point below it (the lower-single-null member of vlib.families mapped onto the unit
    box)"""
    g1 = np.exp(-((x - 0.5) ** 2 + ((y - 0.5) * 1.4) ** 2) / 0.09)
    g2 = np.exp(-((x - 0.5) ** 2 + ((y - 0.5) * 1.4 + 0.6) ** 2) / 0.09)
    return sigma * (g1 + g2)


def _axis_values(sigma):
    # critical points of smooth_psi on x = 0.5, found on a fine ladder + bisection
    from scipy.optimize import brentq

    def dy(y):
        h = 1e-6
        return float(smooth_psi(0.5, y + h, 1.0) - smooth_psi(0.5, y - h, 1.0))

    ys = np.linspace(0.02, 0.98, 481)
    roots = []
    for a, b in zip(ys[:-1], ys[1:]):
        if dy(a) * dy(b) < 0:
            roots.append(brentq(dy, a, b, xtol=1e-14))
    vals = [(abs(r - 0.5), r, float(smooth_psi(0.5, r, 1.0))) for r in roots]
    vals.sort()
    o = vals[0]
    xs = [t for t in vals[1:]]
    # X-point: the saddle, i.e. the local minimum along x = 0.5 between the two maxima
    xp = min(xs, key=lambda t: t[2])
    return sigma * o[2], sigma * xp[2]


def geq_case_dataset(nx, ny, box, lim, sign):
    rleft, rdim, zmid, zdim = BOXES[box]
    small = min(nx, ny) < 33
    # TokamakEquilibrium refuses a file whose simagx/sibdry differ by more than 1e-3 from
    # psi at the critical points of its own interpolant; on coarse arrays the interpolant's
    # critical values are far from the analytic ones, so coarse arrays use an amplitude
    # for which no mismatch can reach 1e-3.
    sigma = sign * (1.0e-4 if small else 1.0)
    x = np.linspace(0.0, 1.0, nx)
    y = np.linspace(0.0, 1.0, ny)
    psi = smooth_psi(x[:, None], y[None, :], sigma)
    pax, pbd = _axis_values(sigma)
    s = np.linspace(0.0, 1.0, nx)
    d = dict(nx=nx, ny=ny, rdim=rdim, zdim=zdim, rcentr=rleft + 0.5 * rdim, rleft=rleft,
             zmid=zmid, rmagx=rleft + 0.5 * rdim, zmagx=zmid, simagx=pax, sibdry=pbd,
             bcentr=2.0, cpasma=1.0e6, fpol=2.0 + 0.3 * s**2 - 0.05 * s,
             pres=1.0e3 * (1.2 - s) ** 2, qpsi=1.0 + 2.0 * s**2, psi=psi)
    pts = LIMITERS[lim]
    if pts is not None:
        d["rlim"] = np.array([rleft + rdim * a for a, b in pts])
        d["zlim"] = np.array([zmid - 0.5 * zdim + zdim * b for a, b in pts])
    return d


def _exact_area2(pts):
    """twice the signed area, exact; positive = anticlockwise"""
    s = Fraction(0)
    n = len(pts)
    for k in range(n):
        x1, y1 = (Fraction(float(c)) for c in pts[k])
        x2, y2 = (Fraction(float(c)) for c in pts[(k + 1) % n])
        s += x1 * y2 - x2 * y1
    return s


def check_geq_case(case):
    from hypnotoad.cases import tokamak

    warnings.simplefilter("ignore")
    nx, ny, box, lim, sign, source = case
    d = geq_case_dataset(nx, ny, box, lim, sign)
    viol = []
    payload = dict(geq_case=list(case))
    worst = {}

    def v(sig, **detail):
        detail.update(nx=nx, ny=ny, box=list(BOXES[box]), limiter=lim, sign=sign, text=source)
        viol.append((sig, detail, payload))

    if source == "hypnotoad_writer":
        text = hwrite(d, None, None, None)
    else:
        text = ref.write_strict(d, "REFERENCE WRITER")
    # the file's content (d to ten significant digits): this is what must be mapped
    f = {}
    for k_, x_ in d.items():
        if k_ in ("nx", "ny"):
            continue
        a_ = np.asarray(x_, dtype=float)
        f[k_] = np.array([ref.rounded10(float(t))[0] for t in a_.ravel()]).reshape(a_.shape)
        if a_.ndim == 0:
            f[k_] = float(f[k_])
    try:
        with contextlib.redirect_stdout(io.StringIO()):
            res = tokamak.read_geqdsk(io.StringIO(text), make_regions=False)
    except Exception as e:  # noqa: BLE001
        v("read_geqdsk raises %s" % type(e).__name__, error=str(e)[:300])
        return viol, worst, "raised"
    outcome = "built"
    if isinstance(res, tuple):
        eq, err = res
        if lim == "two_points" and isinstance(err, ValueError) and "polygon" in str(err):
            outcome = "refused_wall"  # explicit refusal of a 2-point wall
        else:
            v("read_geqdsk returns an error for a well-formed file | %s" % type(err).__name__,
              error=str(err)[:300])
            return viol, worst, "error"
    else:
        eq = res
        if lim == "two_points":
            v("two-point limiter accepted as a wall")
    Rn = f["rleft"] + f["rdim"] * np.arange(nx) / (nx - 1.0)
    Zn = (f["zmid"] - 0.5 * f["zdim"]) + f["zdim"] * np.arange(ny) / (ny - 1.0)
    scale_l = max(abs(f["rleft"]) + f["rdim"], abs(f["zmid"]) + f["zdim"])
    # psi(R_i, Z_j) == psi[i, j].  An interpolating spline reproduces its nodes to
    # rounding (observed <= 3e-15 relative); a wrong axis/extent/orientation gives O(1)
    # relative errors.  Tolerance 1e-10 * max|psi|.
    pscale = float(np.max(np.abs(f["psi"])))
    try:
        R2, Z2 = np.meshgrid(Rn, Zn, indexing="ij")
        got = np.asarray(eq.psi(R2, Z2))
        err = float(np.max(np.abs(got - f["psi"]))) / pscale
        worst["psi_nodes_rel"] = err
        if not err <= 1e-10:
            i, j = np.unravel_index(int(np.argmax(np.abs(got - f["psi"]))), got.shape)
            v("read_geqdsk | psi(R_i,Z_j) is not psi[i,j] of the file", rel_error=err,
              index=[int(i), int(j)], got=float(got[i, j]), expected=float(f["psi"][i, j]))
    except Exception as e:  # noqa: BLE001
        v("read_geqdsk | psi not evaluable %s" % type(e).__name__, error=str(e)[:300])
    if outcome == "built":
        # extent: linspace end points, 1e-12 relative to the box scale
        for name, want in (("Rmin", Rn[0]), ("Rmax", Rn[-1]), ("Zmin", Zn[0]), ("Zmax", Zn[-1])):
            e_ = abs(float(getattr(eq, name)) - want) / scale_l
            worst["extent_rel"] = max(worst.get("extent_rel", 0.0), e_)
            if not e_ <= 1e-12:
                v("read_geqdsk | %s differs from the file's box" % name,
                  got=float(getattr(eq, name)), expected=float(want))
    # interior knots of the interpolating splines are the grid nodes 2..n-3 (not-a-knot):
    # observes R1D and Z1D themselves
    try:
        tx, ty = eq.psi_func.get_knots()
        for nm, t, nodes in (("R", tx, Rn), ("Z", ty, Zn)):
            inner = np.asarray(t)[4:-4]
            want = nodes[2:-2]
            if len(inner) == len(want) and len(want):
                e_ = float(np.max(np.abs(inner - want))) / scale_l
                worst["extent_rel"] = max(worst.get("extent_rel", 0.0), e_)
                if not e_ <= 1e-12:
                    v("read_geqdsk | %s grid nodes differ from rleft/rdim/zmid/zdim" % nm,
                      rel_error=e_)
    except AttributeError:
        pass
    # profiles on the psi grid: psi1D_k = simagx + (sibdry - simagx) k/(nx-1)
    psi1 = f["simagx"] + (f["sibdry"] - f["simagx"]) * np.arange(nx) / (nx - 1.0)
    try:
        gf = np.asarray(eq.fpol(psi1), dtype=float)
        e_ = float(np.max(np.abs(gf - f["fpol"]) / np.abs(f["fpol"])))
        worst["fpol_rel"] = e_
        if not e_ <= 1e-10:
            v("read_geqdsk | fpol(psi1D_k) is not fpol[k] of the file", rel_error=e_)
        gp = np.asarray(eq.pressure(psi1), dtype=float)
        e_ = float(np.max(np.abs(gp - f["pres"]) / np.max(np.abs(f["pres"]))))
        worst["pres_rel"] = e_
        if not e_ <= 1e-10:
            v("read_geqdsk | pressure(psi1D_k) is not pres[k] of the file", rel_error=e_)
    except Exception as e:  # noqa: BLE001
        v("read_geqdsk | profiles not evaluable %s" % type(e).__name__, error=str(e)[:300])
    # wall
    if outcome == "built":
        wall = [(float(p.R), float(p.Z)) for p in eq.wall]
        if "rlim" in f:
            pts = list(zip(f["rlim"].tolist(), f["zlim"].tolist()))
            n = len(pts)
            rots = []
            for seq in (pts, pts[::-1]):
                for k in range(n):
                    rots.append(seq[k:] + seq[:k])
            if wall not in rots:
                v("read_geqdsk | wall is not the limiter polygon of the file",
                  wall=wall, limiter=pts)
            elif _exact_area2(wall) < 0:
                v("read_geqdsk | wall left clockwise", wall=wall)
        else:
            # no limiter in the file: a wall is invented just inside the box; only require
            # it to be inside the box
            for r_, z_ in wall:
                if not (Rn[0] <= r_ <= Rn[-1] and Zn[0] <= z_ <= Zn[-1]):
                    v("read_geqdsk | default wall outside the domain", wall=wall)
                    break
        cw = getattr(eq, "closed_wallarray", None)
        if cw is not None:
            want = np.array(wall + [wall[0]])
            if cw.shape != want.shape or not np.array_equal(cw, want):
                v("read_geqdsk | closed_wallarray is not wall + first point")
    return viol, worst, outcome


def geq_lattice(tier):
    sizes = [5, 6, 7, 11, 33] if tier == "quick" else [5, 6, 7, 11, 33, 65]
    cases = []
    for nx in sizes:
        for ny in sizes:
            for box in range(len(BOXES)):
                for lim in LIMITERS:
                    for sign in (1.0, -1.0):
                        for source in ("hypnotoad_writer", "reference_writer"):
                            cases.append((nx, ny, box, lim, sign, source))
    if tier == "quick":
        for box in range(len(BOXES)):
            cases.append((65, 65, box, "quad_cw", 1.0, "hypnotoad_writer"))
            cases.append((65, 33, box, "pent_acw", -1.0, "reference_writer"))
            cases.append((33, 65, box, "absent", 1.0, "hypnotoad_writer"))
    return cases


def _geq_worker(cases):
    out = []
    for c in cases:
        out.append((c,) + tuple(check_geq_case(c)))
    return out


def run_geq(ctx, cases):
    order = sorted(cases, key=lambda c: -c[0] * c[1])
    chunks = [order[i::64] for i in range(64)]
    chunks = [c for c in chunks if c]
    outcomes = {}
    with ProcessPoolExecutor(max_workers=16) as ex:
        for res in ex.map(_geq_worker, chunks):
            for case, viol, worst, outcome in res:
                outcomes[outcome] = outcomes.get(outcome, 0) + 1
                for sig, detail, payload in viol:
                    ctx.violation(sig, detail, replay=payload)
                for name, val in worst.items():
                    ctx.setmax("worst_readgeqdsk_" + name, val)
    return outcomes


# ---------------------------------------------------------------------------------------
def probe_observations(ctx):
    """Things outside the property's statement that the reference makes visible; recorded,
    never a violation."""
    d = build_dataset(3, 2, (), None, None, -1)
    d["fpol"] = np.array([-0.0, 1.0, -1.0])
    text = hwrite(d, None, None, None)
    try:
        ref.read_strict(text, 3, 2)
        ctx.set("observation_negative_zero_breaks_field_width", False)
    except ref.FormatError:
        ctx.set("observation_negative_zero_breaks_field_width", True)
        ctx.notes.append("writer emits ' -0.000000000E+00' (17 characters) for -0.0: the record is "
                         "no longer 5e16.9; hypnotoad's own reader still returns -0.0, so the "
                         "round trip of the property holds (outside the statement)")
    try:
        got = hread(text)
        if not (got["fpol"][0] == 0.0 and got["fpol"][1] == 1.0 and got["fpol"][2] == -1.0):
            ctx.violation("round trip | negative zero", dict(got=got["fpol"].tolist()),
                          replay=dict(negzero=True))
    except Exception as e:  # noqa: BLE001
        ctx.violation("round trip | negative zero | read raises %s" % type(e).__name__,
                      dict(error=str(e)[:300]), replay=dict(negzero=True))


def run(ctx):
    warnings.simplefilter("ignore")
    for name, val, _ in ALPHABET:
        assert ref.representable(val), name
    for ph in range(8):
        for val in alphabet_values(ph):
            assert ref.representable(val), (ph, val)
    t0 = time.time()
    shapes = SHAPES_THOROUGH if ctx.tier == "thorough" else SHAPES_QUICK
    cases = lattice(shapes, ctx.tier == "thorough", -1)
    seed_cases = lattice(shapes, False, ctx.seed % 8)
    tot, triples = run_lattice(ctx, cases + seed_cases)
    ctx.log("round-trip lattice: %d data sets in %.1fs" % (tot["n"], time.time() - t0))
    t1 = time.time()
    gcases = geq_lattice(ctx.tier)
    outcomes = run_geq(ctx, gcases)
    ctx.log("read_geqdsk lattice: %d cases in %.1fs %r" % (len(gcases), time.time() - t1, outcomes))
    probe_observations(ctx)

    ctx.set("evaluations", tot["n"] + len(gcases))
    ctx.set("roundtrip_datasets", tot["n"])
    ctx.set("roundtrip_datasets_base_lattice", len(cases))
    ctx.set("roundtrip_datasets_seed_phase", len(seed_cases))
    ctx.set("readgeqdsk_cases", len(gcases))
    ctx.set("readgeqdsk_outcomes", outcomes)
    ctx.set("distinct_nontrivial", tot["abut"] + outcomes.get("built", 0))
    ctx.set("rule", "round trip: one data set per point of shapes(nx) x shapes(ny) x "
            "{ffprime,pprime present/absent}^2 x nbdry{absent,0,1,2,5,6} x nlim{same} x header "
            "variant (thorough: all 54 label x shot x time variants; quick and seed phase: one per "
            "body, cycling so that every (shape, header) pair occurs); values from a 19-entry "
            "alphabet by position (flat index + field offset + lattice-coordinate shift) mod 19; "
            "each data set goes through write+read, the reference fixed-column reader, and two "
            "reference-written strict fixed-width texts.  Non-trivial = the text written by "
            "hypnotoad contains at least one negative number abutting its left neighbour "
            "(measured by regex on the text); read_geqdsk cases count when an equilibrium was "
            "built.  All lattice points are distinct by construction.")
    ctx.set("lattice_shapes", shapes)
    ctx.set("lattice_optional", [list(o) for o in OPTIONAL])
    ctx.set("lattice_counts", ["absent" if c is None else c for c in COUNTS])
    ctx.set("lattice_header_variants", len(HEADERS))
    ctx.set("alphabet", [n for n, _, _ in ALPHABET])
    ctx.set("seed_phase", dict(index=ctx.seed % 8, shift=SEED_PHASES[ctx.seed % 8][0],
                               factor=SEED_PHASES[ctx.seed % 8][1]))
    # (field, column, value class) coverage, measured
    # a scalar sits in one fixed column, an array element in any of the five
    possible = len(SCALARS) * NA + (len(FIELDS) - len(SCALARS)) * 5 * NA
    ctx.set("field_column_class_triples_seen", len(triples))
    ctx.set("field_column_class_triples_possible", possible)
    arr_fields = [FIELDS.index(n) for n in FIELDS if n not in SCALARS]
    seen_arr = len([t for t in triples if t[0] in arr_fields])
    ctx.set("array_field_column_class_triples_seen", seen_arr)
    ctx.set("array_field_column_class_triples_possible", len(arr_fields) * 5 * NA)
    ctx.set("datasets_with_abutting_negative_numbers", tot["abut"])
    ctx.set("observation_headers_not_6a8_3i4_conformant", tot["hdr_bad"])
    if tot["hdr_bad"]:
        ctx.notes.append("writer keeps 12 characters of a label longer than 11 in an 11-wide "
                         "field (label[0:12]): the first record is then 61 characters and nx, ny "
                         "are not at the (6a8,3i4) columns; hypnotoad's own reader splits on "
                         "blanks and is unaffected (outside the statement, counted in "
                         "observation_headers_not_6a8_3i4_conformant)")
    ctx.set("exhaustive", True)
    ctx.assume("'representable in the format' = finite and a two-digit decimal exponent after "
               "rounding to ten digits (1e-99 <= |v| < 9.9999999995e99, or 0)")
    ctx.assume("an exact decimal tie at the tenth digit may round either way")
    ctx.assume("reference reader/writer/rounding: ref/c17_ref.py, from the G-EQDSK format "
               "definition with decimal arithmetic")


def replay(ctx, payload):
    warnings.simplefilter("ignore")
    p = payload["replay"]
    if "case" in p:
        viol, _ = check_case(tuple(p["case"]))
    elif "geq_case" in p:
        viol, _, _ = check_geq_case(tuple(p["geq_case"]))
    else:
        probe_observations(ctx)
        viol = []
    for sig, detail, pl in viol:
        ctx.violation(sig, detail, replay=pl)
    ctx.set("evaluations", 1)
