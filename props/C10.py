"""C10 - poloidal spacing: end-point exact, monotone, resolution-consistent.

Thin wrapper.  ``props/C10pure.py`` holds the pure-lattice and equilibrium-level part;
``props/C10grid.py`` (optional, written separately) holds the part judged on generated grid
files (points in increasing arc-length order along contours, ny-doubling pairs, ...).

Convention between the parts: each part reports its violations itself and *adds*
``<part>_evaluations`` and ``<part>_distinct_nontrivial`` with ``ctx.add`` and sets
``<part>_rule`` (text) and ``<part>_exhaustive`` (bool), where <part> is ``pure`` or ``grid``;
this wrapper combines them into the keys the evidence protocol requires.  A replay payload
carries ``payload["replay"]["part"]`` in {"pure", "grid"}.
"""

LEVEL = "exploration"

PARTS = ("pure", "grid")


def _parts():
    from props import C10pure

    mods = {"pure": C10pure}
    try:
        from props import C10grid

        mods["grid"] = C10grid
    except ImportError:
        pass
    return mods


def combine(ctx, present):
    ev = nt = 0
    rules = []
    exhaustive = True
    for p in PARTS:
        if p not in present:
            continue
        ev += ctx.cov.get(p + "_evaluations", 0)
        nt += ctx.cov.get(p + "_distinct_nontrivial", 0)
        if ctx.cov.get(p + "_rule"):
            rules.append("[%s] %s" % (p, ctx.cov[p + "_rule"]))
        exhaustive = exhaustive and bool(ctx.cov.get(p + "_exhaustive", False))
    ctx.set("evaluations", ev)
    ctx.set("distinct_nontrivial", nt)
    ctx.set("rule", " ".join(rules))
    ctx.set("exhaustive", exhaustive)
    ctx.set("parts_run", sorted(present))


def run(ctx):
    mods = _parts()
    for p in PARTS:
        if p in mods:
            mods[p].run(ctx)
    combine(ctx, mods)


def replay(ctx, payload):
    part = (payload.get("replay") or {}).get("part", "pure")
    mods = _parts()
    if part not in mods:
        from vlib.core import HarnessError

        raise HarnessError("C10: replay for part %r but that part is not installed" % part)
    mods[part].replay(ctx, payload)
