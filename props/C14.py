"""C14 - deterministic, side-effect free, and reproducible from embedded inputs.

(a) E2 histories of builds: every sequence of length <= 2 (thorough 3) over a menu of
    complete builds is executed in ONE interpreter; the last build's file must be bitwise
    identical to the same build made in a fresh interpreter.
(b) caller's arrays: fingerprints of the input arrays before/after construction for every
    corpus member; building twice from the same array objects gives identical grids.
(c) provenance: grids made through hypnotoad-geqdsk embed loadable YAML and the byte-exact
    geqdsk text; hypnotoad-recreate-inputs + hypnotoad-geqdsk regenerate every array.
"""

import itertools
import os

import numpy as np

from vlib import corpus, gridutil as gu, lattice

LEVEL = "model_checking"
SKIP = {"hypnotoad_inputs", "hypnotoad_inputs_yaml", "hypnotoad_input_geqdsk_file_contents", "Python_version",
        "module_versions", "__attrs__", "__dims__"}


def menu(tier):
    mk = lattice.mk
    m = [
        ("lsn-orth", mk("lsn", True)),
        ("usn-orth-reverse_current+twopi", mk("usn", True, opt=dict(reverse_current=True, psi_divide_twopi=True))),
        ("lsn-nonorth-settings", mk("lsn", False, non=dict(nonorthogonal_xpoint_poloidal_spacing_length=2.0,
                                                           nonorthogonal_spacing_method="poloidal_orthogonal_combined"))),
        ("circular", dict(family="circular", options=dict(nx=4, ny=8), label="circular nx=4 ny=8")),
    ]
    # members built with worker processes: whatever the workers hold must belong to the
    # equilibrium being meshed, not to an earlier one of the same interpreter
    m += [
        ("lsn-nonorth-2proc", mk("lsn", False, opt=dict(number_of_processors=2))),
        ("usn-orth-2proc", mk("usn", True, opt=dict(number_of_processors=2))),
    ]
    if tier == "thorough":
        m += [
            ("cdn-nonorth", mk("cdn", False)),
            ("ldn-orth-twopi+reverse_Bt", mk("ldn", True, opt=dict(psi_divide_twopi=True, reverse_Bt=True))),
        ]
    return m


def nc_equal(a, b):
    """list of variable names whose values differ between two grid files (bitwise, NaN==NaN)"""
    diff = []
    for k in sorted(set(a) | set(b)):
        if k in SKIP:
            continue
        if k not in a or k not in b:
            diff.append(k + " (missing)")
            continue
        va, vb = a[k], b[k]
        if isinstance(va, str) or isinstance(vb, str):
            if va != vb:
                diff.append(k)
            continue
        va, vb = np.asarray(va), np.asarray(vb)
        if va.shape != vb.shape or not np.array_equal(va, vb, equal_nan=True):
            diff.append(k)
    return diff


def recreate_cases(tier):
    base = dict(nx_core=2, nx_sol=2, ny_inner_divertor=3, ny_outer_divertor=3, ny_sol=4, y_boundary_guards=1,
                finecontour_Nfine=50, refine_timeout=None)
    cases = [
        dict(family="recreate", geom="lsn", options=dict(base, reverse_current=True, refine_methods=["integrate+newton", "integrate"],
                                                       psi_spacing_separatrix_multiplier=0.5),
             label="recreate lsn orth reverse_current, list option, None option"),
        dict(family="recreate", geom="lsn", options=dict(base, orthogonal=False, nonorthogonal_xpoint_poloidal_spacing_length=2.0,
                                                       nonorthogonal_spacing_method="poloidal_orthogonal_combined"),
             label="recreate lsn nonorth with non-orthogonal options"),
    ]
    cases.append(
        dict(family="recreate", geom="lsn", options=dict(base, target_all_poloidal_spacing_length=0.15,
                                                       target_outer_lower_poloidal_spacing_length=None,
                                                       psinorm_pf=0.93, psi_pf_lower=None),
             label="recreate lsn orth with options explicitly set to None whose defaults are expressions"))
    if tier == "thorough":
        cases += [
            dict(family="recreate", geom="cdn", options=dict(base, ny_sol=6, nx_inter_sep=0, psi_divide_twopi=True, reverse_Bt=True),
                 label="recreate cdn psi_divide_twopi reverse_Bt"),
            dict(family="recreate", geom="udn", options=dict(base, ny_sol=6, nx_inter_sep=1, orthogonal=False),
                 label="recreate udn nonorth"),
            dict(family="recreate", geom="lsn", options=dict(base, psi_interpolation_method="dct", curvature_type="curl(b/B) with x-y derivatives"),
                 nR=33, nZ=41, label="recreate lsn dct x-y curvature"),
        ]
    return cases


# ---- (b2) caller's NON-array inputs: wall point list, settings dictionaries -----------------------
CALLER_SRC = r"""
import sys, io, contextlib, warnings, json, copy
sys.path.insert(0, %r)
warnings.simplefilter("ignore")
import numpy as np
from vlib import families, lattice
from hypnotoad.cases import tokamak
geom, wallname, container, orth = json.loads(sys.argv[1])
c = families.normalise(lattice.mk(geom, orth, opt=dict(refine_methods=["integrate+newton", "integrate"])))
c["wall"] = wallname
inp = families.build_inputs(c)
w = inp["wall"]
if container == "list-of-lists":
    w = [list(p) for p in w]
elif container == "ndarray":
    w = np.array(w)
elif container == "closed-list":
    w = list(w) + [w[0]]
settings = copy.deepcopy(dict(c["options"]))
non = copy.deepcopy(dict(c["nonorth"])) if c["nonorth"] else ({} if not orth else None)
snap = copy.deepcopy(dict(wall=w, settings=settings, nonorthogonal_settings=non))
def same(a, b):
    if isinstance(a, np.ndarray) or isinstance(b, np.ndarray):
        return type(a) is type(b) and a.shape == b.shape and bool(np.array_equal(a, b))
    if isinstance(a, dict):
        return isinstance(b, dict) and list(a) == list(b) and all(same(a[k], b[k]) for k in a)
    if isinstance(a, (list, tuple)):
        return type(a) is type(b) and len(a) == len(b) and all(same(x, y) for x, y in zip(a, b))
    return type(a) is type(b) and a == b
res = []
with contextlib.redirect_stdout(io.StringIO()):
    for build in (1, 2):
        try:
            eq = tokamak.TokamakEquilibrium(inp["R1D"].copy(), inp["Z1D"].copy(), inp["psi2D"].copy(), inp["psi1D"].copy(),
                                            inp["fpol1D"].copy(), wall=w, settings=settings, nonorthogonal_settings=non)
        except Exception as e:
            res.append("refused " + type(e).__name__)
            break
        now = dict(wall=w, settings=settings, nonorthogonal_settings=non)
        ch = [k for k in snap if not same(snap[k], now[k])]
        res.append("changed " + ",".join(ch) if ch else "unchanged")
        stored = [(p.R, p.Z) for p in eq.wall]
        res.append("stored_wall_points=%%d" %% len(stored))
sys.stdout = sys.__stdout__
print("OUTCOME=" + " | ".join(res), flush=True)
import os
os._exit(0)
"""


def caller_cases(tier):
    walls = ["W0", "W1", "W2", "W6"] + (["W3", "W7", "W4"] if tier == "thorough" else [])
    conts = ["list-of-tuples", "list-of-lists", "ndarray", "closed-list"]
    geoms = [("lsn", True)] + ([("cdn", True), ("lsn", False), ("usn", True)] if tier == "thorough" else [("cdn", False)])
    return [[g, w, k, o] for (g, o) in geoms for w in walls for k in conts]


def run_caller_case(case):
    import json, signal, subprocess, sys
    p = subprocess.Popen([sys.executable, "-c", CALLER_SRC % (os.path.dirname(os.path.dirname(os.path.abspath(__file__))),),
                          json.dumps(case)], stdout=subprocess.PIPE, stderr=subprocess.DEVNULL, text=True,
                         start_new_session=True, env=dict(os.environ, MPLBACKEND="Agg"))
    try:
        out, _ = p.communicate(timeout=900)
    except subprocess.TimeoutExpired:
        out = "OUTCOME=timeout"
    finally:
        try:
            os.killpg(p.pid, signal.SIGKILL)
        except ProcessLookupError:
            pass
    for line in (out or "").splitlines():
        if line.startswith("OUTCOME="):
            return line[8:]
    return "crashed"


def run(ctx):
    from concurrent.futures import ThreadPoolExecutor
    cc = caller_cases(ctx.tier)
    outcomes = {}
    with ThreadPoolExecutor(8) as tp:
        for case, res in zip(cc, tp.map(run_caller_case, cc)):
            outcomes[res.split(" | ")[0].split(" ")[0]] = outcomes.get(res.split(" | ")[0].split(" ")[0], 0) + 1
            parts = res.split(" | ")
            if any(x.startswith("changed ") for x in parts) or res in ("crashed", "timeout"):
                ctx.violation("caller inputs | wall list or settings dictionaries modified by TokamakEquilibrium",
                              dict(geom=case[0], wall=case[1], container=case[2], orthogonal=case[3], outcome=res),
                              replay=dict(kind="caller", case=case))
    ctx.set("caller_nonarray_input_cases", len(cc))
    ctx.set("caller_nonarray_input_outcomes", outcomes)
    M = menu(ctx.tier)
    depth = 2 if ctx.tier == "quick" else 3
    singles = [m for _, m in M]
    seqs = []
    par = [i for i, (n_, _) in enumerate(M) if n_.endswith("-2proc")]
    ser = [i for i in range(len(M)) if i not in par]
    for L in range(1, depth + 1):
        for combo in itertools.product(ser, repeat=L):
            if L == 3 and combo[0] == combo[1] == combo[2]:
                continue
            seqs.append(combo)
    # the multi-process members: alone, and every ordered pair among them and after the first
    # serial member (all histories of depth <= 2 over {serial lsn, 2proc lsn, 2proc usn} ending in
    # a 2proc build)
    for i in par:
        seqs.append((i,))
        for j in par + ser[:1]:
            seqs.append((j, i))
    seq_members = [dict(family="buildseq", seq=[M[i][1] for i in combo],
                        label="builds " + " -> ".join(M[i][0] for i in combo), watchdog_s=1500) for combo in seqs]
    # same array objects handed to two consecutive builds
    share = []
    for name, m in M:
        if m.get("family", "G") == "G":
            share.append(dict(family="buildseq", seq=[m, m], share_arrays=True,
                              label="same arrays twice: " + name, watchdog_s=1500))
    rec = recreate_cases(ctx.tier)
    members = singles + seq_members + share + rec
    arts = corpus.ensure(members, log=ctx.log, timeout=1500)
    S = arts[:len(singles)]
    Q = arts[len(singles):len(singles) + len(seq_members)]
    H = arts[len(singles) + len(seq_members):len(singles) + len(seq_members) + len(share)]
    Rr = arts[len(singles) + len(seq_members) + len(share):]
    states = transitions = validated = 0
    for combo, a in zip(seqs, Q):
        ref = S[combo[-1]]
        states += 1
        transitions += len(combo)
        names = [M[i][0] for i in combo]
        if not ref.ok:
            continue
        if not a.ok:
            ctx.violation("history | a build fails after earlier builds in the same interpreter",
                          dict(history=names, error=a.meta.get("exc_msg")), replay=dict(history=names))
            continue
        diff = nc_equal(ref.nc, a.nc)
        validated += 1
        ctx.sample(dict(history=names, differing_variables=diff[:5]), limit=5)
        if diff:
            ctx.violation("history | last build differs from the same build in a fresh interpreter" if len(combo) > 1 else
                          "determinism | two fresh processes give different arrays",
                          dict(history=names, variables=diff[:12], n=len(diff)), replay=dict(history=names))
    # (b) caller's arrays
    n_fp = 0
    for a in H:
        states += 1
        transitions += 2
        name = a.config["label"]
        refm = [m for n, m in M if "same arrays twice: " + n == name][0]
        ref = S[[m for _, m in M].index(refm)]
        if not a.ok:
            ctx.violation("caller arrays | second build from the same array objects fails",
                          dict(case=name, error=a.meta.get("exc_msg")), replay=dict(case=name))
            continue
        fb, fa = a.side.get("input_fingerprints_before"), a.side.get("input_fingerprints_after")
        if fb != fa:
            ctx.violation("caller arrays | input arrays modified by TokamakEquilibrium",
                          dict(case=name, changed=[k for k in fb if fb[k] != fa[k]]), replay=dict(case=name))
        if ref.ok:
            diff = nc_equal(ref.nc, a.nc)
            validated += 1
            if diff:
                ctx.violation("caller arrays | building twice from the same array objects gives a different grid",
                              dict(case=name, variables=diff[:12]), replay=dict(case=name))
    for a in gu.select(ctx.tier, log=ctx.log):
        if a.ok and a.config.get("via") == "api":
            fb, fa = a.side.get("input_fingerprints_before"), a.side.get("input_fingerprints_after")
            n_fp += 1
            if fb != fa:
                ctx.violation("caller arrays | input arrays modified by TokamakEquilibrium",
                              dict(case=a.config["label"], changed=[k for k in fb if fb[k] != fa[k]]),
                              replay=dict(case=a.config["label"]))
    # (c) provenance
    import yaml

    for a in Rr:
        states += 1
        transitions += 3
        label = a.config["label"]
        if a.outcome != "ok":
            ctx.violation("provenance | recreate-inputs round trip fails", dict(case=label, outcome=a.outcome,
                          error=a.meta.get("exc_msg"), files=a.meta.get("recreated_files")), replay=dict(case=label))
            continue
        nc = a.nc
        try:
            y = yaml.safe_load(nc["hypnotoad_inputs_yaml"])
            if not isinstance(y, dict) or len(y) < 50:
                raise ValueError("not a complete option mapping (%r keys)" % (len(y) if isinstance(y, dict) else None))
        except Exception as e:  # noqa: BLE001
            ctx.violation("provenance | hypnotoad_inputs_yaml is not loadable YAML of the option set",
                          dict(case=label, error=repr(e)[:300]), replay=dict(case=label))
            continue
        # completeness: every option of the equilibrium, non-orthogonal and mesh factories
        from hypnotoad.cases import tokamak
        from hypnotoad.core.mesh import BoutMesh

        want_keys = set(tokamak.TokamakEquilibrium.user_options_factory.defaults) | \
            set(tokamak.TokamakEquilibrium.nonorthogonal_options_factory.defaults) | \
            set(BoutMesh.user_options_factory.defaults)
        missing = sorted(want_keys - set(y))
        if missing:
            ctx.violation("provenance | embedded option set is incomplete",
                          dict(case=label, missing=missing[:12], n=len(missing)), replay=dict(case=label))
        for k, v in a.config["options"].items():
            if k not in y:
                continue
            if k in y and y[k] != v and not (isinstance(v, float) and abs(y[k] - v) < 1e-15):
                ctx.violation("provenance | embedded option value differs from the one given",
                              dict(case=label, key=k, given=v, embedded=y[k]), replay=dict(case=label))
        with open(os.path.join(a.path, "input.geqdsk")) as f:
            text = f.read()
        if nc["hypnotoad_input_geqdsk_file_contents"] != text:
            ctx.violation("provenance | embedded geqdsk text is not byte-identical to the input file",
                          dict(case=label), replay=dict(case=label))
        nc2 = read_nc(os.path.join(a.path, "grid2.nc"))
        diff = nc_equal(nc, nc2)
        validated += 1
        if diff:
            ctx.violation("provenance | grid regenerated from the embedded inputs differs",
                          dict(case=label, variables=diff[:12], n=len(diff)), replay=dict(case=label))
    ctx.set("states", states)
    ctx.set("transitions", transitions)
    ctx.set("traces_validated_against_impl", validated)
    ctx.set("build_menu", [n for n, _ in M])
    ctx.set("history_depth", depth)
    ctx.set("corpus_members_with_input_fingerprints", n_fp)
    ctx.set("exhaustive", True)
    ctx.assume("comparison is bitwise on every numeric variable of the grid file (grid_id, version and module "
               "strings excluded); each history runs in one fresh interpreter, the reference in another")


def read_nc(path):
    a = corpus.Artefact.__new__(corpus.Artefact)
    a._nc = None
    a.path = os.path.dirname(path)
    cls = type("A2", (corpus.Artefact,), {"ncpath": property(lambda self: path)})
    a.__class__ = cls
    return a.nc


def replay(ctx, payload):
    run(ctx)
