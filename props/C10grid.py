"""C10 (grid part): along every flux surface the grid points appear in strictly increasing
poloidal order; region end points are not moved by redistribution; doubling all ny leaves
each original y-face a face of the finer grid."""

import os
import pickle

import numpy as np

from ref import trace
from vlib import corpus, gridutil as gu, lattice


def ny_pairs(tier):
    out = []
    confs = [("lsn", True), ("lsn", False)] if tier == "quick" else \
        [(g, o) for g in ("lsn", "usn", "cdn", "udn", "ldn") for o in (True, False)]
    for g, orth in confs:
        base = lattice.mk(g, orth, tags=["nypair", "ny1"])
        o = {k: 2 * v for k, v in base["options"].items() if k.startswith("ny_")}
        fine = lattice.mk(g, orth, opt=o, tags=["nypair", "ny2"])
        out.append((base, fine, "%s/%s" % (g, "orth" if orth else "nonorth")))
    return out


def order_check(ctx, a, stats):
    """orientation of every step between consecutive points of every contour relative to the
    flux-surface tangent of the checker's interpolant: one sign for the whole grid"""
    ref = gu.ref_for(a)
    mode = "orth" if a.side["mesh"]["user_options"].get("orthogonal", True) else "nonorth"
    signs = {}
    for reg in a.side["regions"]:
        for k in range(2 * reg["nx"] + 1):
            P = trace.contour_points(reg, k)
            pin = trace.pinned_points(reg, k)
            dom = gu.in_domain(a, P[:, 0], P[:, 1])
            d = np.diff(P, axis=0)
            gR, gZ = ref.grad(P[:, 0], P[:, 1])
            t0 = -gZ[:-1] * d[:, 0] + gR[:-1] * d[:, 1]
            t1 = -gZ[1:] * d[:, 0] + gR[1:] * d[:, 1]
            ok = dom[:-1] & dom[1:] & ~pin[:-1] & ~pin[1:]
            stats["steps"] += int(ok.sum())
            for m in np.argwhere(ok).ravel():
                s0, s1 = np.sign(t0[m]), np.sign(t1[m])
                if s0 != s1 or s0 == 0:
                    ctx.violation("%s | consecutive points of a contour are not in increasing poloidal order" % mode,
                                  dict(config=a.config["label"], region=reg["name"], contour=k, step=int(m)),
                                  replay=dict(part="grid", config=a.config))
                    return
                signs[s0] = signs.get(s0, 0) + 1
    if len(signs) > 1:
        ctx.violation("%s | poloidal ordering has both orientations in one grid" % mode,
                      dict(config=a.config["label"], counts={str(k): v for k, v in signs.items()}),
                      replay=dict(part="grid", config=a.config))


def skeleton_check(ctx, a, stats):
    """the spacing function maps the last index to the contour length, whatever radial segment
    the skeleton is regridded for: the regridded separatrix skeletons handed to the radial
    segments of one poloidal region must coincide (same end points, same interior points)"""
    mode = "orth" if a.side["mesh"]["user_options"].get("orthogonal", True) else "nonorth"
    by_eq = {}
    for reg in a.side["regions"]:
        by_eq.setdefault(reg["eqname"], []).append(reg)
    for eqname, segs in by_eq.items():
        segs = sorted(segs, key=lambda r: r["radialIndex"])
        s0 = segs[0]["skeleton"]
        for sg in segs[1:]:
            stats["skeleton_pairs"] += 1
            sk = sg["skeleton"]
            dd = float(np.hypot(sk[:, 0] - s0[:, 0], sk[:, 1] - s0[:, 1]).max()) if sk.shape == s0.shape else float("inf")
            if dd > 1e-7:
                ctx.violation("%s | separatrix skeleton regridded differently for different radial segments of one region" % mode,
                              dict(config=a.config["label"], region=eqname, segment=sg["radialIndex"], distance=dd),
                              replay=dict(part="grid", config=a.config))


def run(ctx, arts=None):
    stats = dict(steps=0, faces=0, skeleton_pairs=0)
    n = 0
    if arts is None:
        arts = gu.select(ctx.tier, log=ctx.log)
    for a in gu.rotate(arts, ctx.seed):
        if a.ok:
            order_check(ctx, a, stats)
            skeleton_check(ctx, a, stats)
            n += 1
    # ---- ny doubling pairs ----------------------------------------------------------------
    pairs = ny_pairs(ctx.tier)
    parts = corpus.ensure([m for b, f, _ in pairs for m in (b, f)], log=ctx.log)
    for k, (_, _, label) in enumerate(pairs):
        c, f = parts[2 * k], parts[2 * k + 1]
        if not (c.ok and f.ok):
            if c.ok != f.ok:
                ctx.add("grid_ny_pairs_one_member_refused")
            continue
        n += 1
        orth = c.side["mesh"]["user_options"].get("orthogonal", True)
        rf = {r["name"]: r for r in f.side["regions"]}
        myg = int(c.side["mesh"]["user_options"].get("y_boundary_guards", 0))
        worst = 0.0
        worst_rel = 0.0
        for rc in c.side["regions"]:
            r2 = rf[rc["name"]]
            g0 = myg if rc["connections"]["lower"] is None else 0
            nyn = rc["ny_noguards"]
            for loc in ("ylow", "corners"):
                for j in range(nyn + 1):
                    pc = (rc["arrays"]["Rxy"][loc][:, g0 + j], rc["arrays"]["Zxy"][loc][:, g0 + j])
                    pf = (r2["arrays"]["Rxy"][loc][:, g0 + 2 * j], r2["arrays"]["Zxy"][loc][:, g0 + 2 * j])
                    d = np.hypot(pc[0] - pf[0], pc[1] - pf[1])
                    dom = gu.in_domain(c, pc[0], pc[1])
                    stats["faces"] += int(dom.sum())
                    if dom.any():
                        worst = max(worst, float(d[dom].max()))
                        # relative to the shorter adjacent coarse cell
                        A = rc["arrays"]
                        cells = []
                        for jj in (g0 + j - 1, g0 + j):
                            if 0 <= jj < rc["ny"]:
                                cells.append(np.hypot(A["Rxy"][loc][:, jj + 1] - A["Rxy"][loc][:, jj],
                                                      A["Zxy"][loc][:, jj + 1] - A["Zxy"][loc][:, jj]))
                        cell = np.min(cells, axis=0)
                        worst_rel = max(worst_rel, float((d / cell)[dom].max()))
        # orthogonal: same fine contour, index/N_norm invariant under doubling -> exact up to
        # refinement; non-orthogonal: the redistribution is resolution consistent to the
        # interpolation error of the fine contour
        ctx.set("grid_ny_doubling_face_displacement_m[%s]" % label, worst)
        ctx.set("grid_ny_doubling_face_displacement_over_cell[%s]" % label, worst_rel)
        if orth:
            bad = worst > 1e-7
            tol = 1e-7
        else:
            # the non-orthogonal weights blend with a spacing function interpolated through the
            # coarse contour points, so faces are reproduced to the interpolation error of the
            # coarser grid: judged relative to the adjacent coarse cell (observed 0.9 % of a cell at ny=3)
            bad = worst_rel > 0.1
            tol = 0.1
        if bad:
            ctx.violation("%s | doubling all ny moves an original y-face" % ("orth" if orth else "nonorth"),
                          dict(pair=label, displacement=worst, relative_to_cell=worst_rel, tol=tol),
                          replay=dict(part="grid", pair=label))
    # ---- region end points under redistribution (one history subtree per mode) -----------------
    from props.C15 import alphabet

    base = lattice.mk("lsn", False)
    ba = corpus.ensure([base], log=ctx.log)[0]
    if ba.ok:
        alpha, names, _ = alphabet(ba.side["eq"]["nonorthogonal_options"])
        hm = lattice.mk("lsn", False, tags=["history"])
        hm.update(kind="history", alphabet=alpha, first=[1, 2, 3], depth=1, watchdog_s=1500,
                  label="lsn/W0 history B,C,D depth 1 (C10 end points)")
        ha = corpus.ensure([hm], log=ctx.log, timeout=1500)[0]
        if ha.ok:
            with open(os.path.join(ha.path, "history.pkl"), "rb") as fh:
                H = pickle.load(fh)
            first = H[()]
            for hist, st in H.items():
                if hist == () or "refused" in st:
                    continue
                n += 1
                guards = int(ba.side["mesh"]["user_options"].get("y_boundary_guards", 0))
                conn = {r["myID"]: r["connections"] for r in ba.side["regions"]}
                for rid, rec in st["regions"].items():
                    F = first["regions"][rid]
                    # a region's end point is the X-point join, or the target: at a wall end the
                    # boundary guard cells beyond the target continue the target spacing and move
                    # with it by design, so the end point is the y-face between guard cells and domain
                    ends = (guards if conn[rid]["lower"] is None else 0,
                            -1 - (guards if conn[rid]["upper"] is None else 0))
                    for loc in ("ylow", "corners"):
                        for j in ends:
                            d = np.hypot(rec["Rxy"][loc][:, j] - F["Rxy"][loc][:, j], rec["Zxy"][loc][:, j] - F["Zxy"][loc][:, j])
                            dom = gu.in_domain(ba, rec["Rxy"][loc][:, j], rec["Zxy"][loc][:, j])
                            if dom.any():
                                ctx.setmax("grid_worst_region_end_point_displacement_m", float(d[dom].max()))
                                if d[dom].max() > 1e-7:
                                    ctx.violation("nonorth | region end point moved by redistributePoints",
                                                  dict(history=[names[k] for k in hist], region=rec["name"], loc=loc,
                                                       end="lower" if j >= 0 else "upper", displacement=float(d[dom].max())),
                                                  replay=dict(part="grid", history=[names[k] for k in hist]))
    ctx.add("grid_evaluations", n)
    ctx.add("grid_distinct_nontrivial", n)
    ctx.add("grid_contour_steps_judged", stats["steps"])
    ctx.add("grid_skeleton_pairs_compared", stats["skeleton_pairs"])
    ctx.add("grid_faces_compared_under_ny_doubling", stats["faces"])
    ctx.set("grid_rule", "every successful corpus member (ordering), ny-doubling pairs per topology x mode, "
            "redistribution histories B, C, D from the lsn non-orthogonal start state (end points)")
    ctx.set("grid_exhaustive", True)


def replay(ctx, payload):
    rp = payload["replay"]
    if "config" in rp:
        run(ctx, corpus.ensure([rp["config"]], log=ctx.log))
    else:
        run(ctx)
