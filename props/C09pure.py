"""C09 (pure-lattice and equilibrium-level part) - radial psi grid.

E3-pure.  Three exhaustively enumerated lattices, all executed against the real code:

F  ``Equilibrium.getSmoothMonotonicGridFunc`` + ``make1dGrid`` called directly:
   n x |upper-lower| x ordering x offset x constraint mode x end-gradient ratio
   r = g*n/(upper-lower) on a geometric ladder 2^-5..2^5 (41 points) plus the points just
   either side of the code's branch switch r = 1+1e-8, plus a phase-shifted copy of the
   ladder selected by VERIF_SEED (eight pre-declared phases), plus sign-mismatch cases.
K  continuity ladders: the same function on a dense ladder of ratios around the switch
   (second differences in the parameter) and a tight straddle of the switch.
Q  ``TokamakEquilibrium`` built in-process for every topology x sigma x nx vector x
   psi_spacing_separatrix_multiplier x psi-range form, each together with its nx-doubled
   twin, and a three-level nx ladder (32,64,128) for the smoothness clause.

What is demanded, and where the tolerances come from, is documented next to each oracle.
The *strict* clauses (strict monotonicity on the 64x oversampled index set, prescribed end
gradient, vanishing second derivative) are demanded for ratios in [2^-5, 4]: through
``makeRegions`` the end gradient of a singly constrained segment is
m * min_k(|dpsi_k|/nx_k), so its ratio is <= m (times (1+nx_inter_sep/nx_pf) for the secondary
private-flux leg and |psi_sol-psi_sep0|/|psi_sol-psi_sep1| for the SOL of a disconnected
double null, both typically < 2), and the documented / shipped multipliers are m in
[0.2, 2]; only equal gradients at both ends are reachable for the doubly constrained
(inter-separatrix) segment.  Lattice Q checks that bound on the real equilibria (the binding
of lattice F to the code).  Outside that range only "end values, and raises or is (weakly)
monotone" is demanded.
"""

import contextlib
import io
import os
import warnings
from concurrent.futures import ProcessPoolExecutor

import numpy as np

LEVEL = "exploration"

EPS = float(np.finfo(float).eps)

# ---- lattice F ---------------------------------------------------------------------------
N_LIST = [1, 2, 3, 4, 8, 16, 64]
DELTAS = [1.0e-3, 1.0, 40.0]
OFFSETS = [0.0, -0.73]  # psi values of a tokamak are O(1) and need not start at 0
LADDER = [2.0 ** (k / 4.0) for k in range(-20, 21)]  # 41 points, 2^-5 .. 2^5
LADDER_THOROUGH = [2.0 ** (k / 8.0) for k in range(-40, 41)]  # 81 points, same span
SWITCH = 1.0 + 1.0e-8  # branch switch of the code under test (|g*n| < |delta|*(1+1e-8))
SWITCH_POINTS = [
    1.0 - 1.0e-9, 1.0, 1.0 + 1.0e-9,
    SWITCH * (1.0 - 1.0e-9), SWITCH * (1.0 + 1.0e-9), 1.0 + 1.0e-6,
]
# pre-declared phase offsets (sub-cell shifts of the geometric ladder, whose cell is 2^0.25)
PHASES = [2.0 ** ((s + 0.5) / 32.0) for s in range(8)]
ASYM = [0.25, 0.5, 2.0, 4.0]  # grad_upper/grad_lower for the unequal doubly constrained cases
STRICT_LO, STRICT_HI = 2.0**-5, 4.0
OVERSAMPLE = 64

# finite-difference oracle.  With l = n/max(1,r) the length (in index units) over which a
# monotone function that starts with slope g = r*delta/n must bend, and G = max(|g|,
# |delta|/n) the slope scale, any such smooth function has |f'''| l^2/G = O(1..40) (the
# cos-profile of the code has 4 pi^2 = 39.5, measured 38.2), so with f''(end) = 0
#   |D1(h) - g|/G     <= A (h/l)^2 + rounding,     D1 one-sided first difference
#   |D2(h)| l/G       <= B (h/l)   + rounding,     D2 one-sided second difference
# A, B: ten times the worst value observed over the whole lattice (10.3 and 61).
FD_A, FD_B = 100.0, 600.0
FD_STEPS = [2.0**-7, 2.0**-10, 2.0**-13]
FD_ROUND = 64.0  # evaluation noise allowed: FD_ROUND * eps * max|psi|

# end values.  The property says "exactly"; the code reaches the unconstrained end through a
# closed form (rounding only) or through a root solve whose own tests grant 1e-10 relative.
# Granted here: 5e-9 of the segment width plus 64 ulp of the psi scale; measured worst
# 2.3e-11 of the width in lattice F and 2.1e-10 in lattice Q (inter-separatrix segment at
# ratio 8).  Bit-exactness is counted separately as evidence.
END_REL, END_ULPS = 5.0e-9, 64.0

# continuity ladders (lattice K)
K_STEP = 2.0**-12
K_HALF = 256
K_PROBES = [k / 8.0 for k in range(1, 8)]
K2_BOUND = 4.0  # |d2f/dr2|/delta, ten times the worst observed (0.33)
# the two branches meet continuously at the switch but (doubly constrained case) with a kink in
# their dependence on the ratio: measured change of df/dr there 6.3e-3*delta; ten times that
K_KINK = 0.063
NEAR_SWITCH_HI = 1.0 + 2.0**-9
K1_BOUND = 4.0  # |df/dr|/delta: (x - x^3) <= 0.385 for the cubic, times ten
K_NOISE = 1.0e-10  # root-solver noise relative to delta

# ---- lattice Q ---------------------------------------------------------------------------
# udn1 / ldn1: almost balanced double nulls gridded as connected (nx_inter_sep=0) although their
# X-points lie on slightly different flux surfaces: every segment must still meet at psi_sep[0]
GEOMS = ["lsn", "usn", "cdn", "udn", "ldn", "udn2", "udn1", "ldn1"]
CONNECTED = ("cdn", "udn1", "ldn1")
SIGMAS = [1.0, -1.0]
NXVEC = {
    "quick": [dict(nx_core=1, nx_sol=1, nx_inter_sep=1), dict(nx_core=3, nx_sol=4, nx_inter_sep=2)],
    "thorough": [dict(nx_core=2, nx_sol=2, nx_inter_sep=1), dict(nx_core=3, nx_sol=4, nx_inter_sep=2),
                 dict(nx_core=1, nx_sol=1, nx_inter_sep=1), dict(nx_core=5, nx_sol=3, nx_inter_sep=1),
                 dict(nx_core=4, nx_sol=6, nx_inter_sep=3, nx_pf=2),
                 dict(nx_core=7, nx_sol=5, nx_inter_sep=1, nx_sol_inner=3)],
}
MULT = {"quick": [0.2, 0.5, 1.0, 2.0], "thorough": [0.1, 0.2, 0.5, 1.0, 1.5, 2.0, 4.0]}
MULT_SEED = [0.3, 0.4, 0.6, 0.7, 0.8, 1.2, 1.6, 1.8]  # extra multiplier selected by the seed
RANGES = {
    "default": {},
    "asym": dict(psinorm_core=0.85, psinorm_sol=1.12, psinorm_sol_inner=1.07,
                 psinorm_pf_lower=0.93, psinorm_pf_upper=0.88),
    "narrow": dict(psinorm_core=0.96, psinorm_sol=1.05),
}
RANGE_FORMS = {"quick": [("default", "psinorm"), ("asym", "psinorm"), ("asym", "psi")],
               "thorough": [("default", "psinorm"), ("asym", "psinorm"), ("asym", "psi"),
                            ("narrow", "psinorm"), ("narrow", "psi"), ("default", "psi")]}
# three nx levels (core/sol, inter-separatrix); the inter-separatrix segment gets a quarter of
# the cells so that its end-gradient ratio stays O(multiplier) and all segments are in the
# asymptotic regime of the extrapolation below
SMOOTH_NX = [(32, 8), (64, 16), (128, 32)]
SMOOTH_MULT = [0.5, 1.0, 2.0]
DOUBLING_TOL = 1.0e-11  # relative to max|psi|; probe of the design: 0 .. 1.8e-13
# n*(width of the cell touching the separatrix) = F + c2/n^2 + c3/n^3 + O(n^-4) when the
# second derivative vanishes there (no 1/n term); F is the end gradient in units of 1/n.
# Three levels determine F, c2, c3.  A gradient mismatch between the two sides leaves an O(1)
# relative difference, a non-vanishing second derivative an O(1/n) one.
# Measured worst 6.4e-4.
SMOOTH_TOL = 1.0e-2


# ==========================================================================================
# lattice F: the function itself
# ==========================================================================================
_EQ = None


def _bare_equilibrium():
    """An Equilibrium with default options and no geometry (as the repository's tests build
    one); getSmoothMonotonicGridFunc/make1dGrid use no state."""
    global _EQ
    if _EQ is None:
        from hypnotoad.core.equilibrium import Equilibrium

        class _E(Equilibrium):
            def __init__(self):
                self.user_options = Equilibrium.user_options_factory.add(
                    refine_width=1.0e-5, refine_atol=2.0e-8
                ).create({})
                super().__init__({})

        with contextlib.redirect_stdout(io.StringIO()):
            _EQ = _E()
    return _EQ


def _build(case):
    eq = _bare_equilibrium()
    kw = {}
    if case["gl"] is not None:
        kw["grad_lower"] = case["gl"]
    if case["gu"] is not None:
        kw["grad_upper"] = case["gu"]
    return eq, eq.getSmoothMonotonicGridFunc(case["n"], case["lower"], case["upper"], **kw)


def func_cases(seed, tier="quick"):
    """the complete list of lattice-F cases (base lattice + the seed's phase copy)"""
    ladder = LADDER_THOROUGH if tier == "thorough" else LADDER
    ratios = [("base", r) for r in ladder] + [("switch", r) for r in SWITCH_POINTS]
    ratios += [("phase%d" % (seed % 8), r * PHASES[seed % 8]) for r in ladder]
    cases = []
    for n in N_LIST:
        for d in DELTAS:
            for order in (1, -1):
                for off in OFFSETS:
                    # the seed's phase also shifts the offset by a pre-declared amount
                    for off2 in ([off] if off == 0.0 else [off, off - 0.0137 * (1 + seed % 8)]):
                        lower = off2 if order > 0 else off2 + d
                        upper = off2 + d if order > 0 else off2
                        delta = upper - lower
                        base = dict(n=n, lower=lower, upper=upper)
                        cases.append(dict(base, mode="none", gl=None, gu=None, r=None, tag="none"))
                        for tag, r in ratios:
                            g = r * delta / n
                            cases.append(dict(base, mode="lower", gl=g, gu=None, r=r, tag=tag))
                            cases.append(dict(base, mode="upper", gl=None, gu=g, r=r, tag=tag))
                            cases.append(dict(base, mode="both", gl=g, gu=g, r=r, tag=tag))
                            if tag == "base" and off2 == off:
                                for q in ASYM:
                                    # mean ratio r, grad_upper/grad_lower = q
                                    gl = 2.0 * g / (1.0 + q)
                                    cases.append(dict(base, mode="both_asym", gl=gl, gu=q * gl,
                                                      r=r, tag="asym"))
                        if off2 == off:
                            for r in (0.5, 2.0):
                                g = r * delta / n
                                for gl, gu in ((-g, None), (None, -g), (-g, g), (g, -g), (-g, -g)):
                                    cases.append(dict(base, mode="mismatch", gl=gl, gu=gu, r=r,
                                                      tag="mismatch"))
    return cases


def rclass(r):
    """location class of a ratio relative to the code's branch switch, used in signatures"""
    if r is None:
        return "unconstrained"
    if r <= SWITCH:
        return "increasing-spacing branch"
    if r <= NEAR_SWITCH_HI:
        return "just above the branch switch"
    return "decreasing-spacing branch"


def run_func_case(case):
    """Execute one lattice-F case against the real code.  Returns dict(viol=[(sig, detail)],
    stats={...})."""
    viol = []
    st = dict(refused=0, nontrivial=0, strict=0, make1d_refused=0, worst={}, bitexact_ends=0,
              ends=0)
    n, lower, upper = case["n"], case["lower"], case["upper"]
    delta = upper - lower
    scale = max(abs(lower), abs(upper))
    mode = case["mode"]
    try:
        eq, f = _build(case)
    except Exception as e:  # noqa: BLE001
        if mode == "mismatch":
            if not isinstance(e, ValueError):
                viol.append(("func | sign mismatch raises something other than ValueError",
                             dict(exc=type(e).__name__, msg=str(e)[:200])))
            st["nontrivial"] = 1
            return dict(viol=viol, stats=st)
        st["refused"] = 1
        st["refused_class"] = "%s | %s | %s" % (mode, type(e).__name__, str(e)[:60])
        return dict(viol=viol, stats=st)
    if mode == "mismatch":
        viol.append(("func | end gradient of the wrong sign is accepted", dict(case=case)))
        return dict(viol=viol, stats=st)

    rc = rclass(case["r"])
    wsuffix = "_just_above_switch" if rc == "just above the branch switch" else ""

    def worst(key, val):
        key = key + wsuffix
        if val == val and val > st["worst"].get(key, 0.0):
            st["worst"][key] = float(val)

    strict = mode == "none" or (mode in ("lower", "upper", "both") and
                                STRICT_LO <= case["r"] <= STRICT_HI)
    st["strict"] = int(strict)
    # --- end values ------------------------------------------------------------------
    tol_end = END_REL * abs(delta) + END_ULPS * EPS * scale
    for which, idx, want in (("lower", 0, lower), ("upper", n, upper)):
        got = float(f(idx))  # python int index, as make1dGrid passes it
        got2 = float(f(float(idx)))
        st["ends"] += 1
        st["bitexact_ends"] += int(got == want)
        res = max(abs(got - want), abs(got2 - want))
        worst("end_residual_over_tolerance", res / tol_end)
        worst("end_residual_over_width", res / abs(delta))
        if not res <= tol_end:
            viol.append(("func | end value | mode=%s end=%s | %s" % (mode, which, rc),
                         dict(got=got, want=want, residual=res, tol=tol_end)))
    # --- monotonicity on the oversampled index set --------------------------------------
    idx = np.arange(0, OVERSAMPLE * n + 1) / float(OVERSAMPLE)
    vals = np.asarray(f(idx), dtype=float)
    sgn = 1.0 if delta > 0 else -1.0
    steps = np.diff(vals) * sgn
    if not np.all(np.isfinite(vals)):
        viol.append(("func | non-finite value inside [0,n] | mode=%s | %s" % (mode, rc),
                     dict(first_bad_index=float(idx[np.argmin(np.isfinite(vals))]))))
    else:
        # no reversal anywhere on the lattice (4 ulp of the psi scale for evaluation noise;
        # measured: none at all); strictly increasing inside the strict range
        rev = float(-steps.min())
        worst("reversal_in_ulps", max(rev, 0.0) / (EPS * max(scale, abs(delta))))
        if rev > 4.0 * EPS * max(scale, abs(delta)):
            k = int(np.argmin(steps))
            viol.append(("func | not monotone on the oversampled index set | mode=%s | %s" % (mode, rc),
                         dict(index=float(idx[k]), step=float(steps[k] * sgn), strict_range=strict)))
        elif strict and not steps.min() > 0.0:
            k = int(np.argmin(steps))
            viol.append(("func | not strictly monotone inside the reachable range | mode=%s | %s"
                         % (mode, rc),
                         dict(index=float(idx[k]), step=float(steps[k]))))
        # integer indices by scalar calls must agree with the array evaluation
        ints = np.array([float(f(i)) for i in range(n + 1)])
        dev = float(np.max(np.abs(ints - vals[::OVERSAMPLE])))
        worst("scalar_vs_array_ulps", dev / (EPS * max(scale, abs(delta))))
    # --- prescribed gradient, vanishing second derivative ---------------------------------
    if mode in ("lower", "upper", "both"):
        r = case["r"]
        ell = n / max(1.0, r)
        ends = []
        if case["gl"] is not None:
            ends.append(("lower", case["gl"], 0.0, 1.0))
        if case["gu"] is not None:
            ends.append(("upper", case["gu"], float(n), -1.0))
        for which, g, x0, s in ends:
            G = max(abs(g), abs(delta) / n)
            f0 = float(f(x0))
            for hh in FD_STEPS:
                h = ell * hh
                f1, f2 = float(f(x0 + s * h)), float(f(x0 + 2 * s * h))
                d1 = s * (f1 - f0) / h
                d2 = (f0 - 2.0 * f1 + f2) / (h * h)
                e1 = abs(d1 - g) / G
                e2 = abs(d2) * ell / G
                t1 = FD_A * hh**2 + FD_ROUND * EPS * scale / (G * h)
                t2 = FD_B * hh + FD_ROUND * EPS * scale * ell / (G * h * h)
                if strict:
                    worst("gradient_residual_over_tolerance", e1 / t1)
                    worst("second_derivative_over_tolerance", e2 / t2)
                    if not e1 <= t1:
                        viol.append(("func | end gradient differs from the prescribed one | "
                                     "mode=%s end=%s | %s" % (mode, which, rc),
                                     dict(step=h, fd=d1, prescribed=g, err=e1, tol=t1)))
                    if not e2 <= t2:
                        viol.append(("func | second derivative does not vanish at constrained "
                                     "end | mode=%s end=%s | %s" % (mode, which, rc),
                                     dict(step=h, fd2=d2, normalised=e2, tol=t2)))
                else:
                    worst("gradient_residual_over_tolerance_outside_range", e1 / t1)
                    worst("second_derivative_over_tolerance_outside_range", e2 / t2)
    # --- make1dGrid -----------------------------------------------------------------------
    try:
        grid = eq.make1dGrid(n, f)
    except ValueError:
        st["make1d_refused"] = 1
        if strict:
            # inside the reachable range the 1d grid must exist
            viol.append(("func | make1dGrid refuses inside the reachable range | mode=%s | %s"
                         % (mode, rc),
                         dict(n=n, r=case["r"])))
        grid = None
    if grid is not None:
        g2 = np.asarray(grid, dtype=float)
        d = np.diff(g2) * sgn
        if len(g2) != 2 * n + 1 or not np.all(d > 0.0):
            viol.append(("func | make1dGrid result not strictly monotone | mode=%s | %s" % (mode, rc),
                         dict(grid=g2)))
        faces = np.array([float(f(i)) for i in range(n + 1)])
        if not np.array_equal(g2[::2], faces):
            viol.append(("func | make1dGrid faces are not the spacing function's values",
                         dict(grid=g2, faces=faces)))
        mid = 0.5 * (faces[:-1] + faces[1:])
        if np.max(np.abs(g2[1::2] - mid)) > 2.0 * EPS * max(scale, abs(delta)):
            viol.append(("func | make1dGrid centres are not half-way between faces",
                         dict(grid=g2)))
    st["nontrivial"] = 1
    return dict(viol=viol, stats=st)


# ==========================================================================================
# lattice K: continuity in the parameters
# ==========================================================================================
def cont_cases():
    cases = []
    for n in N_LIST:
        for d in DELTAS:
            for order in (1, -1):
                lower = 0.0 if order > 0 else d
                upper = d if order > 0 else 0.0
                for mode in ("lower", "upper", "both"):
                    cases.append(dict(n=n, lower=lower, upper=upper, mode=mode))
    return cases


def _f_at(case, r, probes):
    delta = case["upper"] - case["lower"]
    g = r * delta / case["n"]
    c = dict(case, gl=g if case["mode"] in ("lower", "both") else None,
             gu=g if case["mode"] in ("upper", "both") else None)
    try:
        _, f = _build(c)
    except Exception:  # noqa: BLE001
        return None
    return np.asarray(f(probes), dtype=float)


def run_cont_case(case):
    viol = []
    st = dict(refused=0, evaluations=0, worst={}, straddle_unjudged=0, nontrivial=0)
    n = case["n"]
    delta = case["upper"] - case["lower"]
    probes = np.array([x * n for x in K_PROBES])

    def worst(key, val):
        if val == val and val > st["worst"].get(key, 0.0):
            st["worst"][key] = float(val)

    # tight straddles: of r = 1 and of the code's switch 1+1e-8
    for centre in (1.0, SWITCH):
        lo, hi = centre * (1.0 - 1.0e-9), centre * (1.0 + 1.0e-9)
        a, b = _f_at(case, lo, probes), _f_at(case, hi, probes)
        st["evaluations"] += 2
        if a is None or b is None:
            st["refused"] += int(a is None) + int(b is None)
            st["straddle_unjudged"] += 1
            continue
        jump = float(np.max(np.abs(a - b))) / abs(delta)
        tol = K1_BOUND * 2.0e-9 + K_NOISE
        worst("cont_straddle_jump_over_tolerance_mode_" + case["mode"], jump / tol)
        if not jump <= tol:
            viol.append(("cont | jump across the branch switch | mode=%s" % case["mode"],
                         dict(centre=centre, jump_over_width=jump, tol=tol)))
    # dense ladder: second differences in the parameter must be O(step^2)
    rs = [1.0 + k * K_STEP for k in range(-K_HALF, K_HALF + 1)]
    vals = [_f_at(case, r, probes) for r in rs]
    st["evaluations"] += len(rs)
    st["refused"] += sum(v is None for v in vals)
    judged = 0
    for k in range(1, len(rs) - 1):
        if vals[k - 1] is None or vals[k] is None or vals[k + 1] is None:
            continue
        judged += 1
        sd = float(np.max(np.abs(vals[k + 1] - 2.0 * vals[k] + vals[k - 1]))) / abs(delta)
        if rs[k - 1] <= SWITCH < rs[k + 1]:
            # triple spanning the code's switch: continuity, a kink is allowed
            tol = K_KINK * K_STEP + K2_BOUND * K_STEP**2 + K_NOISE
            worst("cont_kink_at_switch_over_tolerance", sd / tol)
        else:
            tol = K2_BOUND * K_STEP**2 + K_NOISE
            worst("cont_second_diff_over_tolerance", sd / tol)
            worst("cont_second_diff_over_step2", max(sd - K_NOISE, 0.0) / K_STEP**2)
        if not sd <= tol:
            viol.append(("cont | spacing function jumps when the end gradient changes slightly | "
                         "mode=%s" % case["mode"],
                         dict(ratio=rs[k], second_difference_over_width=sd, tol=tol)))
            break
    st["nontrivial"] = int(judged > 0)
    st["triples"] = judged
    return dict(viol=viol, stats=st)


# ==========================================================================================
# lattice Q: equilibrium level
# ==========================================================================================
def eq_configs(tier, seed):
    cfgs = []
    mults = list(MULT[tier]) + [MULT_SEED[seed % 8]]
    for geom in GEOMS:
        for sigma in SIGMAS:
            for nxv in NXVEC[tier]:
                for m in mults:
                    for rng, form in RANGE_FORMS[tier]:
                        cfgs.append(dict(kind="doubling", geom=geom, sigma=sigma, nx=dict(nxv), m=m,
                                         range=rng, form=form))
            for m in SMOOTH_MULT:
                cfgs.append(dict(kind="smooth", geom=geom, sigma=sigma, m=m, range="asym",
                                 form="psinorm"))
    return cfgs


def _options(cfg, nxscale=1, nx_override=None):
    from vlib import families

    geom = cfg["geom"]
    o = families.base_options(geom)
    single = geom in ("lsn", "usn")
    nxv = dict(nx_override if nx_override is not None else cfg["nx"])
    for k, v in nxv.items():
        if k == "nx_inter_sep" and single:
            continue
        if k == "nx_inter_sep" and geom in CONNECTED:
            o[k] = 0
            continue
        o[k] = int(v) * nxscale
    o["psi_spacing_separatrix_multiplier"] = cfg["m"]
    rng = dict(RANGES[cfg["range"]])
    if cfg["form"] == "psinorm":
        o.update(rng)
    else:
        # the same limits given as un-normalised psi_*, computed by the checker from the
        # analytic axis and separatrix values of the family
        f = families.psi_analytic(geom, cfg["sigma"])
        op, xs = families.axis_and_separatrices(f)
        full = dict(psinorm_core=0.9, psinorm_sol=1.1)
        full.update(rng)
        full.setdefault("psinorm_sol_inner", full["psinorm_sol"])
        full.setdefault("psinorm_pf_lower", full["psinorm_core"])
        full.setdefault("psinorm_pf_upper", full["psinorm_core"])
        for k, v in full.items():
            o["psi_" + k[len("psinorm_"):]] = float(op["psi"] + v * (xs[0]["psi"] - op["psi"]))
    return o


def _build_eq(cfg, options):
    from vlib import families, genworker

    warnings.simplefilter("ignore")
    c = families.normalise(dict(geom=cfg["geom"], sigma=cfg["sigma"], options=options,
                                kind="equilibrium"))
    inp = families.build_inputs(c)
    try:
        with contextlib.redirect_stdout(io.StringIO()):
            eq = genworker.build_equilibrium(c, inp, {})
    except Exception as e:  # noqa: BLE001
        return dict(ok=False, exc=type(e).__name__, msg=str(e)[:200])
    d = dict(ok=True, psi_axis=float(eq.psi_axis), psi_sep=[float(p) for p in eq.psi_sep],
             xZ=[float(p.Z) for p in eq.x_points], oZ=float(eq.o_point.Z), regions=[])
    for name, r in eq.regions.items():
        d["regions"].append(dict(name=name, nx=[int(v) for v in r.nx],
                                 psi_vals=[np.array(p, dtype=float) for p in r.psi_vals],
                                 connections=[dict(c) for c in r.connections]))
    return d


def _limits(cfg, options, d):
    """requested boundary values, from the options and the documented definition of
    normalised psi (0 at the axis, 1 at the primary separatrix)"""
    ax, sep0 = d["psi_axis"], d["psi_sep"][0]

    def get(key, *fallbacks):
        if options.get("psi_" + key) is not None:
            return float(options["psi_" + key])
        for k in ("psinorm_" + key,) + fallbacks:
            if options.get(k) is not None:
                return ax + float(options[k]) * (sep0 - ax)
        raise KeyError(key)

    o = dict(options)
    o.setdefault("psinorm_core", 0.9)
    o.setdefault("psinorm_sol", 1.1)
    options = o
    return dict(core=get("core"), sol=get("sol"), sol_inner=get("sol_inner", "psinorm_sol"),
                pf_lower=get("pf_lower", "psinorm_pf", "psinorm_core"),
                pf_upper=get("pf_upper", "psinorm_pf", "psinorm_core"))


def _expected_regions(cfg, options, d):
    """{region name: (boundaries, nx per segment)}; boundaries[k] None = internal, unconstrained"""
    lim = _limits(cfg, options, d)
    seps = d["psi_sep"]
    nxc, nxs = options["nx_core"], options["nx_sol"]
    nxpf = options.get("nx_pf", nxc)
    nxsi, nxso = options.get("nx_sol_inner", nxs), options.get("nx_sol_outer", nxs)
    nis = options.get("nx_inter_sep", 0)
    exp = {}
    if len(seps) == 1:
        lower = d["xZ"][0] < d["oZ"]
        y = "lower" if lower else "upper"
        exp["core"] = ([lim["core"], seps[0], lim["sol"]], [nxc, nxs])
        for x in ("inner", "outer"):
            exp["%s_%s_divertor" % (x, y)] = ([lim["pf_" + y], seps[0], lim["sol"]], [nxpf, nxs])
        return exp
    side = dict(inner=(lim["sol_inner"], nxsi), outer=(lim["sol"], nxso))
    if nis == 0:
        for x in ("inner", "outer"):
            exp[x + "_core"] = ([lim["core"], seps[0], side[x][0]], [nxc, side[x][1]])
            for y in ("lower", "upper"):
                exp["%s_%s_divertor" % (x, y)] = ([lim["pf_" + y], seps[0], side[x][0]],
                                                  [nxpf, side[x][1]])
        return exp
    primary = "lower" if d["xZ"][0] < d["oZ"] else "upper"
    for x in ("inner", "outer"):
        exp[x + "_core"] = ([lim["core"], seps[0], seps[1], side[x][0]], [nxc, nis, side[x][1]])
        for y in ("lower", "upper"):
            b1 = seps[0] if y == primary else None
            exp["%s_%s_divertor" % (x, y)] = ([lim["pf_" + y], b1, seps[1], side[x][0]],
                                              [nxpf, nis, side[x][1]])
    return exp


def _judge_regions(cfg, options, d, viol, st, worst):
    exp = _expected_regions(cfg, options, d)
    got = {r["name"]: r for r in d["regions"]}
    topo = "%dsep" % len(d["psi_sep"])
    if set(got) != set(exp):
        viol.append(("eq | unexpected set of regions | %s" % topo,
                     dict(got=sorted(got), expected=sorted(exp))))
        return
    scale = max(abs(d["psi_axis"]), max(abs(float(np.max(np.abs(p)))) for r in d["regions"]
                                        for p in r["psi_vals"]))
    outward = 1.0 if d["psi_sep"][0] > d["psi_axis"] else -1.0
    for name, (bounds, nxs) in exp.items():
        r = got[name]
        pv = r["psi_vals"]
        if r["nx"] != list(nxs) or [len(p) for p in pv] != [2 * n + 1 for n in nxs]:
            viol.append(("eq | segment sizes differ from nx options | %s" % topo,
                         dict(region=name, nx=r["nx"], lens=[len(p) for p in pv], expected=list(nxs))))
            continue
        for k, p in enumerate(pv):
            st["segments"] += 1
            steps = np.diff(p) * outward
            if not np.all(steps > 0.0):
                viol.append(("eq | psi_vals not strictly monotone (outwards) | %s" % topo,
                             dict(region=name, segment=k, psi_vals=p)))
            mid = 0.5 * (p[:-1:2] + p[2::2])
            if np.max(np.abs(p[1::2] - mid)) > 2.0 * EPS * scale:
                viol.append(("eq | cell centres are not half-way between faces | %s" % topo,
                             dict(region=name, segment=k, psi_vals=p)))
            width = abs(p[-1] - p[0])
            tol = END_REL * width + END_ULPS * EPS * scale
            for which, val, want in (("start", p[0], bounds[k]), ("end", p[-1], bounds[k + 1])):
                if want is None:
                    continue
                st["boundaries"] += 1
                st["boundaries_bitexact"] += int(val == want)
                res = abs(val - want)
                worst("eq_boundary_residual_over_tolerance", res / tol)
                worst("eq_boundary_residual_abs", res)
                if not res <= tol:
                    viol.append(("eq | segment does not %s at the requested value | %s" % (which, topo),
                                 dict(region=name, segment=k, got=val, requested=want,
                                      residual=res, tol=tol)))
            if k + 1 < len(pv):
                st["joins"] += 1
                st["joins_bitexact"] += int(p[-1] == pv[k + 1][0])
                res = abs(p[-1] - pv[k + 1][0])
                worst("eq_join_residual_over_tolerance", res / tol)
                worst("eq_join_residual_abs", res)
                if not res <= tol:
                    viol.append(("eq | adjoining radial segments do not share the boundary value | "
                                 "%s" % topo,
                                 dict(region=name, segment=k, end=p[-1], next_start=pv[k + 1][0])))
            # poloidal neighbours lie on the same flux surfaces
            up = r["connections"][k].get("upper")
            if up is not None:
                other = got[up[0]]["psi_vals"][up[1]]
                st["poloidal_joins"] += 1
                same = len(other) == len(p) and np.array_equal(other, p)
                st["poloidal_joins_bitexact"] += int(same)
                if len(other) != len(p) or np.max(np.abs(other - p)) > tol:
                    viol.append(("eq | poloidally connected segments have different psi_vals | "
                                 "%s" % topo,
                                 dict(region=name, segment=k, other=list(up), a=p, b=other)))


def run_eq_config(cfg):
    viol = []
    st = dict(builds=0, refused=0, nontrivial=0, segments=0, boundaries=0, boundaries_bitexact=0,
              joins=0, joins_bitexact=0, poloidal_joins=0, poloidal_joins_bitexact=0,
              doubling_faces=0, doubling_unjudged=0, smooth_pairs=0, ratio_bindings=0, worst={},
              refused_classes=[])

    def worst(key, val):
        if val == val and val > st["worst"].get(key, 0.0):
            st["worst"][key] = float(val)

    if cfg["kind"] == "doubling":
        levels = [(1, None), (2, None)]
    else:
        levels = [(1, dict(nx_core=n, nx_sol=n, nx_inter_sep=ni)) for n, ni in SMOOTH_NX]
    built = []
    for scale_, ov in levels:
        o = _options(cfg, scale_, ov)
        d = _build_eq(cfg, o)
        st["builds"] += 1
        if not d["ok"]:
            st["refused"] += 1
            st["refused_classes"].append("%s | %s" % (d["exc"], d["msg"][:50]))
            built.append((o, None))
            continue
        _judge_regions(cfg, o, d, viol, st, worst)
        built.append((o, d))
    topo = None
    if cfg["kind"] == "doubling":
        (o1, d1), (o2, d2) = built
        if d1 is None or d2 is None:
            st["doubling_unjudged"] = 1
        else:
            topo = "%dsep" % len(d1["psi_sep"])
            fine = {r["name"]: r for r in d2["regions"]}
            scale = max(abs(float(np.max(np.abs(p)))) for r in d1["regions"] for p in r["psi_vals"])
            for r in d1["regions"]:
                r2 = fine.get(r["name"])
                if r2 is None or len(r2["psi_vals"]) != len(r["psi_vals"]):
                    viol.append(("eq | doubling nx changes the region structure | %s" % topo,
                                 dict(region=r["name"])))
                    continue
                for k, p in enumerate(r["psi_vals"]):
                    q = r2["psi_vals"][k]
                    if len(q) != 2 * (len(p) - 1) + 1:
                        viol.append(("eq | doubling nx does not double the segment | %s" % topo,
                                     dict(region=r["name"], segment=k, n=len(p), n2=len(q))))
                        continue
                    mis = np.abs(q[::4] - p[::2]) / scale
                    st["doubling_faces"] += len(mis)
                    worst("doubling_mismatch_over_tolerance", float(mis.max()) / DOUBLING_TOL)
                    if not mis.max() <= DOUBLING_TOL:
                        j = int(np.argmax(mis))
                        viol.append(("eq | original x-face is not a face of the nx-doubled grid | "
                                     "%s" % topo,
                                     dict(region=r["name"], segment=k, face=j, coarse=p[::2][j],
                                          fine=q[::4][j], mismatch_rel=float(mis[j]))))
            st["nontrivial"] = 1
    else:
        # smoothness across separatrices: n * (width of the cell touching the separatrix),
        # Richardson-extrapolated in 1/n^2, must agree between the two sides of every join
        if all(d is not None for _, d in built):
            topo = "%dsep" % len(built[0][1]["psi_sep"])
            est = {}
            for lev, (o, d) in enumerate(built):
                exp = _expected_regions(cfg, o, d)
                for r in d["regions"]:
                    pv = r["psi_vals"]
                    for k in range(len(pv) - 1):
                        if r["name"] not in exp or exp[r["name"]][0][k + 1] is None:
                            continue  # internal split of one spacing function, not a separatrix
                        # widths in units of the level's refinement factor 2^lev
                        wa = (pv[k][-1] - pv[k][-3]) * 2.0**lev
                        wb = (pv[k + 1][2] - pv[k + 1][0]) * 2.0**lev
                        est.setdefault((r["name"], k), []).append((wa, wb))
            x = np.array([1.0, 0.5, 0.25])
            vand = np.stack([np.ones(3), x**2, x**3], axis=1)
            reg0 = {r["name"]: r for r in built[0][1]["regions"]}
            exp0 = _expected_regions(cfg, built[0][0], built[0][1])
            for key, lst in est.items():
                ga = float(np.linalg.solve(vand, np.array([t[0] for t in lst]))[0])
                gb = float(np.linalg.solve(vand, np.array([t[1] for t in lst]))[0])
                # binding of lattice F to the code: the strict clauses of the spacing function
                # are demanded for ratios reachable through makeRegions, i.e. (separatrix
                # spacing) <= multiplier * (average spacing of the singly constrained segment
                # itself) - "factor modifying radial spacing at separatrices, <1 to make
                # points closer".  Judged on the innermost and outermost segment (the
                # secondary private-flux leg, whose first segment is only part of a spacing
                # function, is skipped).  makeRegions measures the average SOL spacing from
                # the primary separatrix even when the segment starts at the secondary one,
                # hence the factor |limit - sep0|/|width| for the outermost segment.
                pv0 = reg0[key[0]]["psi_vals"]
                bnd = exp0[key[0]][0]
                for seg, gest in ((key[1], ga), (key[1] + 1, gb)):
                    if seg not in (0, len(pv0) - 1) or bnd[seg] is None or bnd[seg + 1] is None:
                        continue
                    nseg = (len(pv0[seg]) - 1) // 2
                    width = pv0[seg][-1] - pv0[seg][0]
                    ratio = gest * nseg / width
                    bound = cfg["m"]
                    if seg == len(pv0) - 1:
                        bound *= abs(bnd[-1] - built[0][1]["psi_sep"][0]) / abs(width)
                    st["ratio_bindings"] += 1
                    worst("eq_end_gradient_ratio_excess_over_tolerance",
                          max(ratio / bound - 1.0, 0.0) / SMOOTH_TOL)
                    worst("eq_end_gradient_ratio", ratio)
                    if not ratio <= bound * (1.0 + SMOOTH_TOL):
                        viol.append(("eq | separatrix spacing exceeds multiplier x average spacing of "
                                     "the segment (ratio outside the reachable range assumed by the "
                                     "function-level lattice) | %s" % topo,
                                     dict(region=key[0], segment=seg, ratio=ratio, bound=bound,
                                          multiplier=cfg["m"])))
                st["smooth_pairs"] += 1
                rel = abs(ga - gb) / max(abs(ga), abs(gb))
                worst("smooth_gradient_mismatch_over_tolerance", rel / SMOOTH_TOL)
                if not rel <= SMOOTH_TOL:
                    viol.append(("eq | radial spacing differs between the two sides of a separatrix | "
                                 "%s" % topo,
                                 dict(region=key[0], join=key[1], inner_side=ga, outer_side=gb,
                                      levels=lst)))
            st["nontrivial"] = 1
    return dict(viol=viol, stats=st)


# ==========================================================================================
# driver
# ==========================================================================================
_KINDS = {"func": run_func_case, "cont": run_cont_case, "eq": run_eq_config}


def _run_chunk(args):
    kind, cases = args
    warnings.simplefilter("ignore")
    out = []
    with np.errstate(all="ignore"):
        for c in cases:
            out.append(_KINDS[kind](c))
    return out


def _chunks(kind, cases, size):
    return [(kind, cases[i:i + size]) for i in range(0, len(cases), size)]


def _merge_worst(ctx, w):
    for k, v in w.items():
        ctx.setmax("pure_worst_" + k, v)


def _report(ctx, kind, case, res):
    """re-execute a failing case once (a divergence is a harness error), then report it"""
    from vlib.core import HarnessError

    with np.errstate(all="ignore"):
        again = _KINDS[kind](case)
    if sorted(s for s, _ in again["viol"]) != sorted(s for s, _ in res["viol"]):
        raise HarnessError("C09pure: case does not reproduce: %r" % (case,))
    for sig, detail in res["viol"]:
        detail = dict(detail)
        detail["case"] = case
        ctx.violation(sig, detail, replay=dict(part="pure", kind=kind, case=case))


def run(ctx):
    warnings.simplefilter("ignore")
    seed = ctx.seed % 8
    fc = func_cases(seed, ctx.tier)
    cc = cont_cases()
    ec = eq_configs(ctx.tier, seed)
    # the seed permutes the work order only (the lattices above do not depend on it except
    # for the pre-declared phase)
    rot = (seed * 7919) % max(1, len(ec))
    ec = ec[rot:] + ec[:rot]
    tasks = _chunks("eq", ec, 3) + _chunks("cont", cc, 2) + _chunks("func", fc, 400)
    nproc = min(16, os.cpu_count() or 1)
    results = []
    with ProcessPoolExecutor(max_workers=nproc) as ex:
        for (kind, cases), out in zip(tasks, ex.map(_run_chunk, tasks)):
            results.extend((kind, c, r) for c, r in zip(cases, out))
    refused_classes = {}
    n_eval = n_nontrivial = 0
    for kind, case, res in results:
        st = res["stats"]
        _merge_worst(ctx, st["worst"])
        if res["viol"]:
            _report(ctx, kind, case, res)
        if kind == "func":
            n_eval += 1
            n_nontrivial += st["nontrivial"]
            ctx.add("pure_func_cases")
            ctx.add("pure_func_cases_in_strict_range", st["strict"])
            ctx.add("pure_func_refused_by_code", st["refused"])
            ctx.add("pure_func_make1dGrid_refused", st["make1d_refused"])
            ctx.add("pure_func_end_values_judged", st["ends"])
            ctx.add("pure_func_end_values_bit_exact", st["bitexact_ends"])
            if st["refused"]:
                k = st["refused_class"]
                refused_classes[k] = refused_classes.get(k, 0) + 1
            if st["nontrivial"] and case["tag"] in ("base", "switch") and case["n"] in (3, 64):
                if case["r"] in (LADDER[8], SWITCH_POINTS[4], LADDER[30]):
                    ctx.sample(dict(kind="func", case=case), limit=4)
        elif kind == "cont":
            n_eval += st["evaluations"]
            n_nontrivial += st["nontrivial"]
            ctx.add("pure_cont_ladders")
            ctx.add("pure_cont_function_constructions", st["evaluations"])
            ctx.add("pure_cont_refused_by_code", st["refused"])
            ctx.add("pure_cont_straddles_unjudged_because_refused", st["straddle_unjudged"])
            ctx.add("pure_cont_second_difference_triples", st.get("triples", 0))
        else:
            n_eval += st["builds"]
            n_nontrivial += st["nontrivial"]
            ctx.add("pure_eq_configurations")
            ctx.add("pure_eq_builds", st["builds"])
            ctx.add("pure_eq_builds_refused_by_code", st["refused"])
            for k in ("segments", "boundaries", "boundaries_bitexact", "joins", "joins_bitexact",
                      "poloidal_joins", "poloidal_joins_bitexact", "doubling_faces",
                      "doubling_unjudged", "smooth_pairs", "ratio_bindings"):
                ctx.add("pure_eq_" + k, st[k])
            for k in st["refused_classes"]:
                refused_classes["eq | " + k] = refused_classes.get("eq | " + k, 0) + 1
            if st["nontrivial"]:
                ctx.sample(dict(kind="eq", config=case), limit=6)
    ctx.add("pure_evaluations", n_eval)
    ctx.add("pure_distinct_nontrivial", n_nontrivial)
    ctx.set("pure_refused_classes", refused_classes)
    ctx.set("pure_lattice", dict(
        n=N_LIST, width=DELTAS, orderings=2, offsets=OFFSETS, modes=["none", "lower", "upper",
                                                                     "both", "both_asym", "mismatch"],
        ratio_ladder_points=len(LADDER_THOROUGH if ctx.tier == "thorough" else LADDER), switch_points=SWITCH_POINTS, seed_phase=PHASES[seed],
        strict_range=[STRICT_LO, STRICT_HI], oversampling=OVERSAMPLE,
        continuity_ladder=dict(step=K_STEP, points=2 * K_HALF + 1, probes=K_PROBES),
        eq=dict(geoms=GEOMS, sigmas=SIGMAS, nx_vectors=NXVEC[ctx.tier],
                multipliers=MULT[ctx.tier] + [MULT_SEED[seed]], ranges=RANGE_FORMS[ctx.tier],
                smooth_nx=SMOOTH_NX, smooth_multipliers=SMOOTH_MULT)))
    ctx.set("pure_rule",
            "pure part: full Cartesian product of the lattice in pure_lattice. One evaluation = one "
            "construction of the spacing function (lattices F and K) or one TokamakEquilibrium build "
            "(lattice Q). Non-trivial = F: the code returned a function and every clause applicable "
            "to the case was judged (mismatch cases: the refusal was observed); K: a ladder with at "
            "least one judged second-difference triple; Q: a configuration whose builds all "
            "succeeded and whose regions, joins and doubling/smoothness clause were judged. Cases "
            "refused by the code are counted separately and are not non-trivial.")
    ctx.set("pure_exhaustive", True)
    ctx.assume("strict clauses of the spacing function are demanded for end-gradient ratios in "
               "[2^-5, 4] (reachable through makeRegions with documented multipliers 0.2..2); "
               "outside only end values and absence of reversals are demanded")
    ctx.assume("'exactly at the requested boundary value' is judged to 1e-9 of the segment width + "
               "64 ulp (closed-form rounding / the code's root-solver tolerance); bit-exact hits "
               "are counted in pure_*_bitexact")


def replay(ctx, payload):
    rp = payload["replay"]
    kind, case = rp["kind"], rp["case"]
    warnings.simplefilter("ignore")
    with np.errstate(all="ignore"):
        res = _KINDS[kind](case)
    for sig, detail in res["viol"]:
        detail = dict(detail)
        detail["case"] = case
        ctx.violation(sig, detail, replay=dict(part="pure", kind=kind, case=case))
    ctx.log("replayed %s case: %d violation(s)" % (kind, len(res["viol"])))

