"""C02 - metric tensor and Jacobian are the field-aligned metric, self-consistent.

E3-grid.  Oracles, pointwise at centre / xlow / ylow of every region of every corpus grid:
 (i)   [g^ij].[g_ij] = I
 (ii)  J = hy/Bpxy and |J| = det(g^ij)^(-1/2)
 (iii) closed forms with the non-orthogonality angle measured by the checker from the
       file's own face coordinates and the checker's own grad(psi)
 (iv)  convention-free geometric identities from displacements between neighbouring points
 (v)   g_23 = g_33 * d(zShift)/dy  (sign everywhere, magnitude through dphidy)
"""

import numpy as np

from vlib import gridutil as gu

LEVEL = "exploration"
CONTRA = ("g11", "g22", "g33", "g12", "g13", "g23")
COV = ("g_11", "g_22", "g_33", "g_12", "g_13", "g_23")


def mats(A, loc):
    def m(names):
        a = {n: A[n][loc] for n in names}
        n1, n2, n3, n12, n13, n23 = names
        M = np.empty(a[n1].shape + (3, 3))
        M[..., 0, 0] = a[n1]
        M[..., 1, 1] = a[n2]
        M[..., 2, 2] = a[n3]
        M[..., 0, 1] = M[..., 1, 0] = a[n12]
        M[..., 0, 2] = M[..., 2, 0] = a[n13]
        M[..., 1, 2] = M[..., 2, 1] = a[n23]
        return M

    return m(CONTRA), m(COV)


def chords(reg, loc, neigh):
    """(dxR, dxZ, dyR, dyZ, valid) displacement vectors between neighbouring faces at the
    points of location loc; valid marks points whose stencil exists and touches no pinned
    corner."""
    R, Z = reg["arrays"]["Rxy"], reg["arrays"]["Zxy"]
    nx, ny = reg["nx"], reg["ny"]
    pinned, _ = gu.pinned_corner_mask(reg)
    # the last y-row of the arrays is the upper neighbour's version of the shared edge
    # (getRZBoundary); hy and the metric of the last cell were computed with the region's own
    # end points, which differ from it by 1e-4..4e-3 m (C08 finding) - use the own points
    own = reg.get("own_last") if reg["connections"].get("upper") is not None else None
    if loc == "centre":
        dxR = R["xlow"][1:, :] - R["xlow"][:-1, :]
        dxZ = Z["xlow"][1:, :] - Z["xlow"][:-1, :]
        yR, yZ = R["ylow"].copy(), Z["ylow"].copy()
        if own is not None:
            yR[:, -1], yZ[:, -1] = own[1::2, 0], own[1::2, 1]
        dyR = yR[:, 1:] - yR[:, :-1]
        dyZ = yZ[:, 1:] - yZ[:, :-1]
        valid = np.ones((nx, ny), bool)
    elif loc == "ylow":
        dxR = R["corners"][1:, :] - R["corners"][:-1, :]
        dxZ = Z["corners"][1:, :] - Z["corners"][:-1, :]
        valid = ~(pinned[1:, :] | pinned[:-1, :])
        dyR = np.full((nx, ny + 1), np.nan)
        dyZ = np.full((nx, ny + 1), np.nan)
        dyR[:, 1:-1] = R["centre"][:, 1:] - R["centre"][:, :-1]
        dyZ[:, 1:-1] = Z["centre"][:, 1:] - Z["centre"][:, :-1]
        lo, up = neigh.get("lower"), neigh.get("upper")
        if lo is not None:
            dyR[:, 0] = R["centre"][:, 0] - lo["arrays"]["Rxy"]["centre"][:, -1]
            dyZ[:, 0] = Z["centre"][:, 0] - lo["arrays"]["Zxy"]["centre"][:, -1]
        if up is not None:
            dyR[:, -1] = up["arrays"]["Rxy"]["centre"][:, 0] - R["centre"][:, -1]
            dyZ[:, -1] = up["arrays"]["Zxy"]["centre"][:, 0] - Z["centre"][:, -1]
        valid &= np.isfinite(dyR)
        if up is not None and any(p is not None for p in reg["xPointsAtEnd"]):
            valid[:, -1] = False  # arc made of two halves measured to two versions of the edge
        if lo is not None and any(p is not None for p in reg["xPointsAtStart"]):
            valid[:, 0] = False
    else:  # xlow
        cR, cZ = R["corners"].copy(), Z["corners"].copy()
        if own is not None:
            pinm, _ = gu.pinned_corner_mask(reg)
            keep = ~pinm[:, -1]
            cR[keep, -1], cZ[keep, -1] = own[0::2, 0][keep], own[0::2, 1][keep]
        dyR = cR[:, 1:] - cR[:, :-1]
        dyZ = cZ[:, 1:] - cZ[:, :-1]
        valid = ~(pinned[:, 1:] | pinned[:, :-1])
        dxR = np.full((nx + 1, ny), np.nan)
        dxZ = np.full((nx + 1, ny), np.nan)
        dxR[1:-1, :] = R["centre"][1:, :] - R["centre"][:-1, :]
        dxZ[1:-1, :] = Z["centre"][1:, :] - Z["centre"][:-1, :]
        inn, out = neigh.get("inner"), neigh.get("outer")
        if inn is not None:
            dxR[0, :] = R["centre"][0, :] - inn["arrays"]["Rxy"]["centre"][-1, :]
            dxZ[0, :] = Z["centre"][0, :] - inn["arrays"]["Zxy"]["centre"][-1, :]
        if out is not None:
            dxR[-1, :] = out["arrays"]["Rxy"]["centre"][0, :] - R["centre"][-1, :]
            dxZ[-1, :] = out["arrays"]["Zxy"]["centre"][0, :] - Z["centre"][-1, :]
        valid &= np.isfinite(dxR)
    return dxR, dxZ, dyR, dyZ, valid


def xchord_start(reg, loc, neigh):
    R, Z = reg["arrays"]["Rxy"], reg["arrays"]["Zxy"]
    if loc == "centre":
        return R["xlow"][:-1, :], Z["xlow"][:-1, :]
    if loc == "ylow":
        return R["corners"][:-1, :], Z["corners"][:-1, :]
    sR = np.full((reg["nx"] + 1, reg["ny"]), np.nan)
    sZ = np.full((reg["nx"] + 1, reg["ny"]), np.nan)
    sR[1:, :] = R["centre"]
    sZ[1:, :] = Z["centre"]
    inn = neigh.get("inner")
    if inn is not None:
        sR[0, :] = inn["arrays"]["Rxy"]["centre"][-1, :]
        sZ[0, :] = inn["arrays"]["Zxy"]["centre"][-1, :]
    return sR, sZ


def dpsi_at(reg, loc, neigh):
    """psi difference across the x-chord used by ``chords`` (checker's own dx)"""
    pv = reg["psi_vals"]
    if loc in ("centre", "ylow"):
        return (pv[2::2] - pv[:-2:2])[:, None]
    d = np.full((reg["nx"] + 1, 1), np.nan)
    d[1:-1, 0] = pv[3::2] - pv[1:-2:2]
    inn, out = neigh.get("inner"), neigh.get("outer")
    if inn is not None:
        d[0, 0] = pv[1] - inn["psi_vals"][-2]
    if out is not None:
        d[-1, 0] = out["psi_vals"][1] - pv[-2]
    return d


class Reporter:
    def __init__(self, ctx, a, reg, mode):
        self.ctx, self.a, self.reg, self.mode = ctx, a, reg, mode

    def check(self, what, loc, err, tol, valid=None, extra=None):
        """err, tol arrays (or scalars); report first offending point"""
        err = np.asarray(err, dtype=float)
        tol = np.broadcast_to(np.asarray(tol, dtype=float), err.shape)
        bad = ~(err <= tol)
        if valid is not None:
            bad &= valid
        with np.errstate(invalid="ignore", divide="ignore"):
            ratio = np.where(bad | (valid if valid is not None else True), err / tol, 0.0)
        ratio = ratio[np.isfinite(ratio)]
        worst = float(ratio.max()) if ratio.size else 0.0
        self.ctx.setmax("worst_over_tol[%s]" % what, worst)
        if bad.any():
            idx = tuple(map(int, np.argwhere(bad)[0]))
            d = dict(config=self.a.config["label"], region=self.reg["name"], loc=loc, index=list(idx),
                     residual=float(err[idx]), tol=float(tol[idx]), n_bad=int(bad.sum()))
            if extra:
                d.update({k: (float(v[idx]) if hasattr(v, "shape") and v.shape == err.shape else v)
                          for k, v in extra.items()})
            self.ctx.violation("%s | %s | %s" % (self.mode, what, loc), d,
                               replay=dict(config=self.a.config))


def check_artefact(ctx, a, stats):
    side = a.side
    ref = gu.ref_for(a)
    opts = side["mesh"]["user_options"]
    orth = bool(opts.get("orthogonal", True))
    grtol = float(opts.get("geometry_rtol", 1e-10))
    dy = side["mesh"]["dy_scalar"]
    regs = {r["myID"]: r for r in side["regions"]}
    sig = "psi_increasing" if side["regions"][0]["psi_vals"][-1] > side["regions"][0]["psi_vals"][0] else "psi_decreasing"
    mode = ("orth" if orth else "nonorth") + " & " + sig
    has_bt = a.config["fpol"] != "none"
    for reg in side["regions"]:
        A = reg["arrays"]
        neigh = {k: (regs[v] if v is not None else None) for k, v in reg["connections"].items()}
        # periodic single-region core: neighbour is itself, fine
        rep = Reporter(ctx, a, reg, mode)
        for loc in ("centre", "xlow", "ylow"):
            if any(loc not in A[n] for n in CONTRA + COV + ("J",)):
                missing = [n for n in CONTRA + COV + ("J",) if loc not in A[n]]
                ctx.violation(
                    "%s | metric not computed at %s (written as zeros)" % ("orth" if orth else "nonorth", loc),
                    dict(config=a.config["label"], region=reg["name"], missing=missing),
                    replay=dict(config=a.config))
                continue
            stats["points"] += A["g11"][loc].size
            G, g = mats(A, loc)
            # (i) inverse
            P = np.einsum("...ij,...jk->...ik", G, g)
            scale = np.einsum("...ij,...jk->...ik", np.abs(G), np.abs(g)).max(axis=(-1, -2))
            err = np.abs(P - np.eye(3)).max(axis=(-1, -2)) / np.maximum(scale, 1.0)
            rep.check("g^ij.g_ij=I", loc, err, 1e-10)
            # (ii) Jacobian
            R, hy, Bp, Bt = A["Rxy"][loc], A["hy"][loc], A["Bpxy"][loc], A["Btxy"][loc]
            J = A["J"][loc]
            rep.check("J=hy/Bp", loc, np.abs(J - hy / Bp) / np.abs(J), 1e-13)
            det = np.linalg.det(G)
            rep.check("|J|=det(g^ij)^-1/2", loc, np.abs(np.abs(J) - 1 / np.sqrt(np.abs(det))) / np.abs(J),
                      10 * grtol, extra=dict(det=det))
            rep.check("hy>0", loc, -hy, 0.0)
            dphidy = A["dphidy"][loc]
            rep.check("dphidy=hy*Bt/(Bp*R)", loc, np.abs(dphidy - hy * Bt / (Bp * R)), 1e-13 * np.maximum(1, np.abs(dphidy)))
            # (iii) closed forms with measured beta
            dxR, dxZ, dyR, dyZ, valid = chords(reg, loc, neigh)
            Rp, Zp = A["Rxy"][loc], A["Zxy"][loc]
            R_, Z_ = A["Rxy"], A["Zxy"]
            sR0, sZ0 = xchord_start(reg, loc, neigh)
            dom = gu.in_domain(a, Rp, Zp) & gu.in_domain(a, sR0, sZ0) & gu.in_domain(a, sR0 + dxR, sZ0 + dxZ)
            stats["outside_domain"] += int((~dom & np.isfinite(sR0)).sum())
            valid = valid & dom
            gR, gZ = ref.grad(Rp, Zp)
            gm = np.hypot(gR, gZ)
            ex = np.hypot(dxR, dxZ)
            with np.errstate(invalid="ignore", divide="ignore"):
                cosb = (dxR * gR + dxZ * gZ) / (ex * gm)
                sinb2 = np.clip(1 - cosb**2, 0, None)
                tanb_abs = np.sqrt(sinb2) / np.abs(cosb)
            if orth:
                cosb_use = np.ones_like(R)
                tanb_use = np.zeros_like(R)
                vb = np.ones_like(valid)
            else:
                cosb_use, tanb_use, vb = cosb, tanb_abs, valid & np.isfinite(cosb)
                if loc == "centre":
                    stats["max_tanbeta"] = max(stats["max_tanbeta"], float(np.nanmax(np.where(vb, tanb_abs, 0))))

            def rel(x, y):
                return np.abs(x - y) / np.maximum(np.abs(y), 1e-300)

            with np.errstate(invalid="ignore", divide="ignore"):
                RBp = R * np.abs(Bp)
                rep.check("g11=(R*Bp)^2", loc, rel(A["g11"][loc], RBp**2), 1e-12)
                rep.check("g_33=R^2", loc, rel(A["g_33"][loc], R**2), 1e-12)
                rep.check("g_13=0", loc, np.abs(A["g_13"][loc]), 0.0)
                rep.check("g_22=hy^2+(R*dphidy)^2", loc, rel(A["g_22"][loc], hy**2 + (R * dphidy) ** 2), 1e-12)
                rep.check("|g_23|=|dphidy|*R^2", loc, rel(np.abs(A["g_23"][loc]), np.abs(dphidy) * R**2), 1e-12)
                t = 1e-12 if orth else 2e-8
                rep.check("g22=1/(hy*cosb)^2", loc, rel(A["g22"][loc], 1 / (hy * cosb_use) ** 2), t, vb)
                rep.check("g_11=1/(R*Bp*cosb)^2", loc, rel(A["g_11"][loc], 1 / (RBp * cosb_use) ** 2), t, vb)
                rep.check("g33=1/R^2+(dphidy/(hy*cosb))^2", loc,
                          rel(A["g33"][loc], 1 / R**2 + (dphidy / (hy * cosb_use)) ** 2), t, vb)
                rep.check("|g23|=|dphidy|/(hy*cosb)^2", loc,
                          rel(np.abs(A["g23"][loc]), np.abs(dphidy) / (hy * cosb_use) ** 2), t, vb)
                if orth:
                    for n in ("g12", "g13", "g_12"):
                        rep.check("%s=0 (orthogonal)" % n, loc, np.abs(A[n][loc]), 0.0)
                else:
                    ta = 2e-7  # |tan b| reaches 10 in the most skewed cells: conditioning
                    rep.check("|g12|=R|Bp||tanb|/hy", loc,
                              np.abs(np.abs(A["g12"][loc]) - RBp * tanb_use / hy), ta * RBp / hy * (1 + tanb_use), vb)
                    rep.check("|g_12|=hy|tanb|/(R|Bp|)", loc,
                              np.abs(np.abs(A["g_12"][loc]) - hy * tanb_use / RBp), ta * hy / RBp * (1 + tanb_use), vb)
                    rep.check("|g13|=R|Bp||dphidy||tanb|/hy", loc,
                              np.abs(np.abs(A["g13"][loc]) - RBp * np.abs(dphidy) * tanb_use / hy),
                              ta * RBp * np.abs(dphidy) / hy * (1 + tanb_use) + 1e-300, vb)
            # (iv) convention-free geometric identities.  e_x is the chord between the
            # neighbouring x-faces (index direction) divided by the signed dx; e_y is tangent
            # to the flux surface (x = psi is constant along y), oriented towards increasing
            # y index.  Brackets instead of "second order" tolerances: by the mean value
            # theorem dpsi = |Dx r| * mean_chord(grad psi . ex_hat), chord/arc = mean(t.c).
            dpsi = np.broadcast_to(dpsi_at(reg, loc, neigh), R.shape)
            # "per unit dx": the dx stored for this location must be the psi difference across
            # the chord the displacement clause uses (between the neighbouring cell centres at
            # an x-face - across a separatrix these belong to different regions whose cells
            # have different widths).  The checker's own dpsi is used below, so without this
            # clause a wrong stored dx would go unnoticed.
            if "dx" in A and loc in A["dx"]:
                fdx = np.broadcast_to(np.asarray(A["dx"][loc], dtype=float), R.shape) if \
                    np.asarray(A["dx"][loc]).shape[0] == R.shape[0] else None
                if fdx is not None:
                    vdx = np.isfinite(dpsi)
                    rep.check("stored dx = psi difference between the neighbouring grid points", loc,
                              np.abs(np.where(vdx, fdx - dpsi, 0.0)), 1e-10 * np.abs(np.where(vdx, dpsi, 1.0)) + 1e-14,
                              vdx, extra=dict(stored=fdx, expected=dpsi))
            ey = np.hypot(dyR, dyZ)
            with np.errstate(invalid="ignore", divide="ignore"):
                exR, exZ = dxR / ex, dxZ / ex
                # tangent oriented along increasing y
                tR, tZ = -gZ / gm, gR / gm
                orient = np.sign(tR * dyR + tZ * dyZ)
                tR, tZ = tR * orient, tZ * orient
                # --- g_12: dimensionless form, algebraically tight
                g22pol = A["g_22"][loc] - (R * dphidy) ** 2
                code_cos = A["g_12"][loc] / np.sqrt(A["g_11"][loc] * g22pol)
                geo_cos = np.sign(dpsi) * (exR * tR + exZ * tZ)
                v12 = valid & np.isfinite(geo_cos) & np.isfinite(code_cos) & (orient != 0)
                stats["n_g12"] += int(v12.sum())
                stats["n_g12_nontrivial"] += int((v12 & (np.abs(geo_cos) > 1e-3)).sum())
                # orthogonal grids: g_12 = 0 by construction and the true angle is second
                # order in the radial spacing (judged precisely by C04); non-orthogonal: the
                # same chord defines beta in the file, so the identity is algebraically tight
                # a mismatch that is an exact negation is reported under its own signature so
                # that the recorded sign finding cannot hide any other error in g_12
                neg = v12 & (np.abs(code_cos + geo_cos) <= 1e-6) & (np.abs(code_cos - geo_cos) > 1e-6) & (not orth)
                if not orth:
                    rep.check("g_12/sqrt(g_11*g_22pol)=e_x.e_y/(|e_x||e_y|)", loc, np.abs(code_cos - geo_cos),
                              1e-6, v12 & ~neg, extra=dict(code=code_cos, geometric=geo_cos))
                rep.check("g_12 has the opposite sign of e_x.e_y (exact negation)", loc,
                          np.where(neg, 1.0, 0.0), 0.5, neg, extra=dict(code=code_cos, geometric=geo_cos))
                # --- g_11 dx^2 = |Dx r|^2 : bracket from grad(psi).ex_hat sampled on the chord
                lhs = A["g_11"][loc] * dpsi**2 / ex**2
                if orth:
                    # the file's g_11 = 1/(R Bp)^2 assumes beta = 0; the actual chord makes the
                    # small angle beta with grad(psi) (second order, judged by C04)
                    lhs = lhs * cosb**2
                lo = np.full(R.shape, np.inf)
                hi = np.zeros(R.shape)
                sR, sZ = xchord_start(reg, loc, neigh)
                for tt in np.linspace(0.0, 1.0, 17):
                    pr, pz = sR + tt * dxR, sZ + tt * dxZ
                    okp = np.isfinite(pr) & np.isfinite(pz)
                    qR, qZ = ref.grad(np.where(okp, pr, Rp), np.where(okp, pz, Zp))
                    proj = np.abs(qR * exR + qZ * exZ)
                    lo = np.minimum(lo, proj)
                    hi = np.maximum(hi, proj)
                here = np.abs(gR * exR + gZ * exZ)
                v11 = valid & np.isfinite(lhs) & np.isfinite(lo) & (lo > 0)
                # next to an X-point grad(psi).e_x changes sign along a straight chord
                pinq, _ = gu.pinned_corner_mask(reg)
                if loc == "centre":
                    v11 = v11 & ~(pinq[1:, 1:] | pinq[1:, :-1] | pinq[:-1, 1:] | pinq[:-1, :-1])
                elif loc == "ylow":
                    tq = np.zeros(R.shape, bool)
                    tq[:, :-1] |= pinq[1:, 1:] | pinq[:-1, 1:]
                    tq[:, 1:] |= pinq[1:, :-1] | pinq[:-1, :-1]
                    tq |= pinq[1:, :] | pinq[:-1, :]
                    v11 = v11 & ~tq
                else:
                    tq = np.zeros(R.shape, bool)
                    tq[:-1, :] |= pinq[1:, 1:] | pinq[1:, :-1]
                    tq[1:, :] |= pinq[:-1, 1:] | pinq[:-1, :-1]
                    tq |= pinq[:, 1:] | pinq[:, :-1]
                    v11 = v11 & ~tq
                if opts.get("cap_Bp_ylow_xpoint") and loc == "ylow":
                    # the option deliberately replaces Bp at the y-faces next to an X-point:
                    # the metric there is self-consistent but no longer geometric
                    v11 = v11 & False
                lower = (lo / here) ** 2 * (1 - 1e-3) - 1e-6
                upper = (hi / here) ** 2 * (1 + 1e-3) + 1e-6
                # lhs = (here/mean)^2 must lie in [(here/hi)^2, (here/lo)^2]
                rep.check("g_11*dx^2=|Dx r|^2 (mean-value bracket)", loc,
                          np.maximum(lower - lhs, lhs - upper), 0.0, v11,
                          extra=dict(lhs=lhs, lo=lower, hi=upper))
                # --- poloidal part of g_22: chord <= arc, chord >= arc * min(t.c)
                arc = np.sqrt(g22pol) * dy
                cR, cZ = dyR / ey, dyZ / ey
                v22 = valid & np.isfinite(ey) & (ey > 0)
                if loc == "ylow":
                    # region joins: the arc is made of two halves, each measured to the owning
                    # region's own version of the shared edge point - compare with the sum of
                    # the two half chords measured the same way
                    ey = ey.copy()
                    lo_, up_ = neigh.get("lower"), neigh.get("upper")
                    own_f = reg.get("own_first")
                    if lo_ is not None and own_f is not None and "own_last" in lo_:
                        a_ = lo_["own_last"][1::2] - np.column_stack([lo_["arrays"]["Rxy"]["centre"][:, -1], lo_["arrays"]["Zxy"]["centre"][:, -1]])
                        b_ = np.column_stack([R_["centre"][:, 0], Z_["centre"][:, 0]]) - own_f[1::2]
                        ey[:, 0] = np.hypot(a_[:, 0], a_[:, 1]) + np.hypot(b_[:, 0], b_[:, 1])
                        v22[:, 0] = gu.in_domain(a, Rp[:, 0], Zp[:, 0])
                    if up_ is not None and "own_last" in reg and "own_first" in up_:
                        a_ = reg["own_last"][1::2] - np.column_stack([R_["centre"][:, -1], Z_["centre"][:, -1]])
                        b_ = np.column_stack([up_["arrays"]["Rxy"]["centre"][:, 0], up_["arrays"]["Zxy"]["centre"][:, 0]]) - up_["own_first"][1::2]
                        ey[:, -1] = np.hypot(a_[:, 0], a_[:, 1]) + np.hypot(b_[:, 0], b_[:, 1])
                        v22[:, -1] = gu.in_domain(a, Rp[:, -1], Zp[:, -1])
                # hy is exact only to the O(1/Nfine^2) chord error of the fine contour (C05)
                nfine = float(opts.get("finecontour_Nfine", 100))
                # ... plus the polygon error where the surface is strongly curved: (kappa*h)^2/8,
                # kappa = flux-surface curvature at the point, h = fine-contour spacing
                hRR, hZZ, hRZ = ref.hess(Rp, Zp)
                kap = np.abs(hRR * tR * tR + 2 * hRZ * tR * tZ + hZZ * tZ * tZ) / gm
                hfine = np.nansum(np.where(np.isfinite(ey), ey, 0.0), axis=1, keepdims=True) / nfine
                allow = 20.0 / nfine**2 + (kap * hfine) ** 2 / 8.0
                rep.check("poloidal g_22*dy^2 >= |Dy r|^2 (chord<=arc)", loc, ey / arc - 1, allow, v22)
                tc_here = tR * cR + tZ * cZ
                rep.check("poloidal g_22*dy^2 ~ |Dy r|^2 (chord >= arc*cos)", loc,
                          (tc_here**2 * 0.2) - ey / arc, allow, v22 & (tc_here > 0))
            # (v) y-z coupling vs zShift stored in the same file
            if has_bt and "zShift" in A:
                zs = A["zShift"]
                pin, _ = gu.pinned_corner_mask(reg)
                if loc == "centre":
                    dz = (zs["ylow"][:, 1:] - zs["ylow"][:, :-1]) / dy
                    vz = ~(pin[1:, 1:] | pin[1:, :-1] | pin[:-1, 1:] | pin[:-1, :-1])
                elif loc == "xlow":
                    dz = (zs["corners"][:, 1:] - zs["corners"][:, :-1]) / dy
                    vz = ~(pin[:, 1:] | pin[:, :-1])
                else:
                    dz = np.full(R.shape, np.nan)
                    dz[:, 1:-1] = (zs["centre"][:, 1:] - zs["centre"][:, :-1]) / dy
                    vz = np.isfinite(dz)
                with np.errstate(invalid="ignore", divide="ignore"):
                    q = (A["g_23"][loc] / A["g_33"][loc]) / dz
                stats["n_g23"] += int(vz.sum())
                rep.check("sign(g_23)=sign(g_33*dzShift/dy)", loc, np.where(q > 0, 0.0, 1.0), 0.5, np.isfinite(q),
                          extra=dict(ratio=q))
                # integrated form between the staggered locations of the same file: d(zShift)/dy
                # has one sign along a field line, so the value at a cell's y-centre lies strictly
                # between the values at its two y-faces (no tolerance, no sign convention)
                if loc in ("centre", "xlow"):
                    lo_, mid_ = (zs["ylow"], zs["centre"]) if loc == "centre" else (zs["corners"], zs["xlow"])
                    a_ = mid_ - lo_[:, :-1]
                    b_ = lo_[:, 1:] - mid_
                    rep.check("zShift at the y-centre lies between its y-face values", loc,
                              np.where(a_ * b_ > 0, 0.0, 1.0), 0.5, vz & np.isfinite(a_) & np.isfinite(b_),
                              extra=dict(from_lower_face=a_, to_upper_face=b_))
                # (the magnitude of d(zShift)/dy is judged by C06 against the field-line integral;
                # |g_23| = |dphidy| R^2 is judged above - a pointwise value cannot be compared with
                # a cell average next to an X-point)
                # contravariant partner: g23 has the opposite sign of g_23
                s = np.sign(A["g23"][loc]) * np.sign(A["g_23"][loc])
                rep.check("sign(g23)=-sign(g_23)", loc, np.where(s < 0, 0.0, 1.0), 0.5)


# ---- circular geometry (no psi table: judged by the displacement identity alone) ------------
def circular_members(tier):
    qs = [[3.0], [3.0, 2.0], [1.5, 4.0]]
    # (nx, ny, r_inner, r_outer): radial cell width / r_inner <= 0.1 so that the second-order
    # discretisation allowance stays below 1.5 %
    cases = [(6, 12, 0.2, 0.3), (12, 8, 0.2, 0.3), (26, 8, 0.1, 0.35)]
    if tier != "quick":
        cases += [(24, 16, 0.2, 0.3), (5, 7, 0.25, 0.3), (40, 6, 0.1, 0.35), (9, 5, 0.15, 0.2)]
    return [dict(nx=nx, ny=ny, q_coefficients=q, r_inner=ri, r_outer=ro) for q in qs for (nx, ny, ri, ro) in cases]


def circular_case(opts):
    import contextlib
    import io
    import warnings

    from hypnotoad.cases import circular
    from hypnotoad.core.mesh import BoutMesh

    warnings.simplefilter("ignore")
    try:
        with contextlib.redirect_stdout(io.StringIO()):
            eq = circular.CircularEquilibrium(settings=dict(opts))
            mesh = BoutMesh(eq, dict(opts))
            mesh.geometry()
    except Exception as e:  # noqa: BLE001
        return dict(opts=opts, refused="%s: %s" % (type(e).__name__, str(e)[:200]))
    out = dict(opts=opts, rows=[])
    for r in mesh.regions.values():
        Rx, Zx = np.array(r.Rxy.xlow), np.array(r.Zxy.xlow)
        dr = np.hypot(Rx[1:, :] - Rx[:-1, :], Zx[1:, :] - Zx[:-1, :])
        dx = np.array(r.dx.centre)
        g_11 = np.array(r.g_11.centre)
        g11 = np.array(r.g11.centre)
        Rc, Bp = np.array(r.Rxy.centre), np.array(r.Bpxy.centre)
        out["rows"].append(dict(
            region=r.name, n=int(dr.size),
            g_11=float(np.max(np.abs(g_11 * dx**2 / dr**2 - 1.0))),
            Bp=float(np.max(np.abs(np.abs(Bp) * Rc * dr / np.abs(dx) - 1.0))),
            inv=float(np.max(np.abs(g11 * g_11 - 1.0)))))
    return out


def check_circular(ctx, stats):
    """Circular (core-only) geometry has no psi table for the checker to interpolate; the
    sign-convention-free clause needs none: g_11*dx^2 is the squared displacement between the
    two x-faces of a cell, and R*|Bp|*|Dr| = |dpsi| (second order in the radial spacing)."""
    from concurrent.futures import ProcessPoolExecutor

    mem = circular_members(ctx.tier)
    with ProcessPoolExecutor(min(8, len(mem))) as pool:
        res = list(pool.map(circular_case, mem))
    for r in res:
        stats["circular_members"] = stats.get("circular_members", 0) + 1
        if "refused" in r:
            stats["circular_refused"] = stats.get("circular_refused", 0) + 1
            continue
        o = r["opts"]
        # second-order discretisation error; measured 0.35..0.63 (width/r_inner)^2
        width = (o["r_outer"] - o["r_inner"]) / o["nx"]
        tol = 1e-6 + 2.5 * (width / o["r_inner"]) ** 2
        for row in r["rows"]:
            stats["circular_cells"] = stats.get("circular_cells", 0) + row["n"]
            for what, key in (("g_11*dx^2 = |Dx r|^2", "g_11"), ("R*|Bp|*|Dx r| = |dx|", "Bp")):
                ctx.setmax("worst_over_tol[circular %s]" % what, row[key] / tol)
                if not row[key] <= tol:
                    ctx.violation("circular | %s | centre" % what,
                                  dict(options=o, region=row["region"], residual=row[key], tol=tol),
                                  replay=dict(kind="circular", options=o))
            if not row["inv"] <= 1e-10:
                ctx.violation("circular | g11*g_11 = 1 (orthogonal) | centre", dict(options=o, residual=row["inv"]),
                              replay=dict(kind="circular", options=o))


def run(ctx, arts=None):
    if arts is None:
        arts = gu.select(ctx.tier, log=ctx.log)
    arts = gu.rotate(arts, ctx.seed)
    stats = dict(points=0, max_tanbeta=0.0, n_g12=0, n_g23=0, n_g12_nontrivial=0, outside_domain=0)
    nontrivial = refused = 0
    classes = set()
    for a in arts:
        if not a.ok:
            refused += 1
            continue
        check_artefact(ctx, a, stats)
        nontrivial += 1
        o = a.side["mesh"]["user_options"]
        classes.add((a.config["geom"], bool(o.get("orthogonal", True)), a.config["sigma"]))
        ctx.sample(dict(config=a.config["label"]), limit=5)
    if getattr(ctx, "_with_circular", True):
        check_circular(ctx, stats)
        for k in ("circular_members", "circular_refused", "circular_cells"):
            ctx.set(k, stats.get(k, 0))
    ctx.set("evaluations", len(arts))
    ctx.set("distinct_nontrivial", nontrivial)
    ctx.set("refused_configurations", refused)
    ctx.set("points_judged", stats["points"])
    ctx.set("max_abs_tan_beta_on_nonorthogonal_grids", stats["max_tanbeta"])
    ctx.set("points_outside_input_domain_excluded", stats["outside_domain"])
    ctx.set("points_with_g_12_identity", stats["n_g12"])
    ctx.set("points_with_g_12_identity_and_nonzero_angle", stats["n_g12_nontrivial"])
    ctx.set("points_with_g_23_zShift_identity", stats["n_g23"])
    ctx.set("distinct_(topology,mode,sign)_classes", len(classes))
    ctx.set("rule", "corpus lattice (see C01); a configuration is non-trivial when it generated and "
            "has Bt != 0; non-orthogonal members must reach |tan beta| > 1e-3 (reported)")
    ctx.set("exhaustive", True)
    ctx.assume("beta is measured by the checker from the grid's own face/corner coordinates and the "
               "checker's own grad(psi); geometric identities hold to second order in the spacing, "
               "tolerances 8% (x), chord<=arc and 6% on the angle cosine")


def replay(ctx, payload):
    from vlib import corpus

    if payload["replay"].get("kind") == "circular":
        check_circular(ctx, {})
        return

    arts = corpus.ensure([payload["replay"]["config"]], log=ctx.log)
    run(ctx, arts)
