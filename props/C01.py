"""C01 - every grid point lies on its flux surface.

E3-grid: every point at all four staggered locations of every region of every corpus grid
is evaluated with the checker's own interpolant of the *input* psi array.
"""

import numpy as np

from ref import interp
from vlib import gridutil as gu

LEVEL = "exploration"


def check_artefact(ctx, a, stats):
    side = a.side
    ref = gu.ref_for(a)
    opts = side["mesh"]["user_options"]
    atol = float(opts.get("refine_atol", 2e-8))
    if opts.get("follow_perpendicular_recover"):
        stats["skipped_recover"] += 1
        return
    nc = a.nc
    worst = 0.0
    nonorth = not opts.get("orthogonal", True)
    for reg in side["regions"]:
        Rm, Zm = reg["arrays"]["Rxy"], reg["arrays"]["Zxy"]
        pinned, xps = gu.pinned_corner_mask(reg)
        for loc in gu.LOCS:
            R, Z = Rm[loc], Zm[loc]
            want = np.broadcast_to(gu.expected_psi(reg, loc), R.shape)
            got = ref.psi(R, Z)
            tol = 5.0 * atol * np.maximum(1.0, np.abs(want))
            err = np.abs(got - want)
            if loc == "corners":
                err = np.where(pinned, 0.0, err)
            stats["points"] += R.size
            worst = max(worst, float(np.max(err / tol)))
            bad = np.argwhere(err > tol)
            if len(bad):
                i, j = map(int, bad[0])
                ctx.violation(
                    "%s | point off its flux surface | %s" % ("nonorth" if nonorth else "orth", loc),
                    dict(config=a.config["label"], region=reg["name"], loc=loc, index=[i, j],
                         R=R[i, j], Z=Z[i, j], psi_ref=got[i, j], psi_expected=want[i, j],
                         tol=float(tol[i, j]), n_bad=int(len(bad))),
                    replay=dict(config=a.config),
                )
        # pinned corners must be the X-point of the reference interpolant
        for (i, j), p in xps.items():
            stats["pinned"] += 1
            Rc, Zc = Rm["corners"][i, j], Zm["corners"][i, j]
            Rx, Zx = interp.newton_critical(ref, p[0], p[1])
            d = float(np.hypot(Rc - Rx, Zc - Zx))
            stats["worst_xpoint_dist"] = max(stats["worst_xpoint_dist"], d)
            # hypnotoad locates critical points with a local bicubic fit of the input array
            # (utils/critical.py) whatever psi_interpolation_method is, so with "dct" the
            # pinned position agrees with the dct interpolant's own saddle only to the
            # interpolation error of the input grid (a small fraction of an input cell)
            if opts.get("psi_interpolation_method", "spline") == "dct":
                xtol = 0.03 * float(np.hypot(ref.R1D[1] - ref.R1D[0], ref.Z1D[1] - ref.Z1D[0]))
            else:
                # find_critical stops at |grad psi|^2/R^2 < xpoint_refine_atol: position bound
                # R*sqrt(atol)/lambda_min (smallest Hessian eigenvalue), cf. C03/C16
                hRR_, hZZ_, hRZ_ = ref.hess(Rx, Zx)
                lam_ = float(np.abs(np.linalg.eigvalsh(np.array([[float(hRR_), float(hRZ_)], [float(hRZ_), float(hZZ_)]]))).min())
                xat_ = float(side["eq"]["user_options"].get("xpoint_refine_atol", 1e-6))
                xtol = 2.0 * Rx * np.sqrt(xat_) / lam_ + 1e-6
                stats["worst_xpoint_dist_spline"] = max(stats.get("worst_xpoint_dist_spline", 0.0), d)
                ctx.setmax("worst_pinned_corner_distance_over_tol", d / xtol)
            # only a corner whose radial index is that X-point's separatrix is legitimately
            # pinned: psi at the X-point must be the psi-grid value of the corner's index
            # (tolerance: psi error of a critical point located to xpoint_refine_atol, cf. C03)
            want_psi = float(reg["psi_vals"][2 * i])
            psix = float(ref.psi(Rx, Zx))
            hRR, hZZ, hRZ = ref.hess(Rx, Zx)
            lam = float(np.abs(np.linalg.eigvalsh(np.array([[float(hRR), float(hRZ)], [float(hRZ), float(hZZ)]]))).min())
            xat = float(side["eq"]["user_options"].get("xpoint_refine_atol", 1e-6))
            ptol = 4 * Rx**2 * xat / (2 * lam) + 5 * atol * max(1.0, abs(want_psi))
            if opts.get("psi_interpolation_method", "spline") == "dct":
                ptol = max(ptol, 3e-4 * gu.psi_scale(a))
            # a double null gridded as connected (one separatrix index for both X-points,
            # documented: nx_inter_sep=0) deliberately pins its secondary X-point on the grid line
            # of the primary separatrix: the allowed mismatch is then the psi difference between
            # the two X-points (the code refuses unless that is less than the first cell)
            seps = side["eq"].get("psi_sep") or []
            if len(seps) == 2 and int(side["eq"]["user_options"].get("nx_inter_sep", 1) or 0) == 0:
                if abs(want_psi - float(seps[0])) <= ptol and abs(psix - float(seps[1])) <= ptol:
                    stats["pinned_secondary_xpoint_of_connected_double_null"] = stats.get(
                        "pinned_secondary_xpoint_of_connected_double_null", 0) + 1
                    continue
            ctx.setmax("worst_pinned_corner_psi_mismatch_over_tol", abs(psix - want_psi) / ptol)
            if abs(psix - want_psi) > ptol:
                ctx.violation(
                    "corner pinned to an X-point whose psi is not the psi of the corner's radial index",
                    dict(config=a.config["label"], region=reg["name"], corner=[i, j], psi_xpoint=psix,
                         psi_of_index=want_psi, tol=ptol),
                    replay=dict(config=a.config),
                )
            if d > xtol:
                ctx.violation(
                    "pinned corner is not at the X-point",
                    dict(config=a.config["label"], region=reg["name"], corner=[i, j],
                         corner_RZ=[Rc, Zc], xpoint_ref=[Rx, Zx], dist=d),
                    replay=dict(config=a.config),
                )
    # file level: psixy (all locations written) equals the reference at the file's R,Z and
    # is constant along y inside each region
    scale = gu.psi_scale(a)
    for suffix in ("", "_xlow", "_ylow"):
        R, Z, P = nc["Rxy" + suffix], nc["Zxy" + suffix], nc["psixy" + suffix]
        got = ref.psi(R, Z)
        stats["points"] += R.size
        err = np.abs(got - P)
        tol = 5.0 * atol * max(1.0, scale)
        if suffix == "_xlow" and False:
            pass
        bad = np.argwhere(err > tol)
        worst = max(worst, float(np.max(err) / tol))
        if len(bad):
            i, j = map(int, bad[0])
            ctx.violation(
                "file | psixy%s differs from interpolated psi at (Rxy,Zxy)" % suffix,
                dict(config=a.config["label"], index=[i, j], psixy=P[i, j], psi_ref=got[i, j],
                     tol=tol, n_bad=int(len(bad))),
                replay=dict(config=a.config),
            )
        for reg in side["regions"]:
            xs, ys = reg["xslice"], reg["yslice"]
            blk = P[xs[0]:xs[1], ys[0]:ys[1]]
            var = float(np.max(np.abs(blk - blk[:, :1])))
            # each point is on its surface to 5*atol, so two points of one surface may differ
            # by twice that
            if var > 2 * tol:
                ctx.violation(
                    "file | psixy%s varies along y inside a region" % suffix,
                    dict(config=a.config["label"], region=reg["name"], variation=var),
                    replay=dict(config=a.config),
                )
    stats["worst_ratio"] = max(stats["worst_ratio"], worst)
    ctx.setmax("worst_residual_over_tolerance", worst)


def check_file_corners(ctx, a, stats):
    """File level: the four corner arrays of cell (ix, iy) against the file's own radial psi
    grid - left corners on the flux surface of x-face ix, right corners on that of x-face ix+1
    (psixy_xlow of the x-neighbour): the grid line shared by two radial regions must be ONE flux
    surface whichever region wrote it.  Corners at an X-point are excluded."""
    nc, side = a.nc, a.side
    if "psixy_xlow" not in nc or "Rxy_lower_right_corners" not in nc:
        return
    opts = side["mesh"]["user_options"]
    if opts.get("follow_perpendicular_recover"):
        return
    atol = float(opts.get("refine_atol", 2e-8))
    ref = gu.ref_for(a)
    px = np.array(nc["psixy_xlow"], float)
    nx = px.shape[0]
    xpts = [tuple(p) for p in side["eq"].get("x_points", [])]
    nonorth = not opts.get("orthogonal", True)

    def at_xpoint(R, Z):
        m = np.zeros(R.shape, bool)
        for (xr, xz) in xpts:
            m |= np.hypot(R - xr, Z - xz) < 1e-3
        return m

    for name, face in (("corners", 0), ("upper_left_corners", 0), ("lower_right_corners", 1), ("upper_right_corners", 1)):
        R = np.array(nc["Rxy_" + name], float)
        Z = np.array(nc["Zxy_" + name], float)
        if face == 0:
            want, Rj, Zj = px, R, Z
        else:
            want, Rj, Zj = px[1:, :], R[:-1, :], Z[:-1, :]
        if name.startswith("upper"):
            # the upper corners of cell iy lie on the same flux surface as its lower ones
            pass
        ok = gu.in_domain(a, Rj, Zj) & ~at_xpoint(Rj, Zj) & np.isfinite(want)
        got = ref.psi(Rj, Zj)
        tol = 5.0 * atol * np.maximum(1.0, np.abs(want))
        err = np.where(ok, np.abs(got - want), 0.0)
        stats["file_corner_points"] = stats.get("file_corner_points", 0) + int(ok.sum())
        ctx.setmax("worst_file_corner_residual_over_tolerance", float(np.max(err / tol)) if err.size else 0.0)
        bad = np.argwhere(err > tol)
        if len(bad):
            i, j = map(int, bad[0])
            ctx.violation("%s | file: %s corner of a cell is not on the flux surface of its x-face (psixy_xlow)" % (
                "nonorth" if nonorth else "orth", "right" if face else "left"),
                dict(config=a.config["label"], variable="Rxy_" + name, cell=[i, j], psi_at_corner=float(got[i, j]),
                     psixy_xlow_of_face=float(want[i, j]), tol=float(tol[i, j]), n_bad=int(len(bad))),
                replay=dict(config=a.config))


def run(ctx, arts=None):
    if arts is None:
        arts = gu.select(ctx.tier, log=ctx.log)
    arts = gu.rotate(arts, ctx.seed)
    stats = dict(points=0, pinned=0, skipped_recover=0, worst_ratio=0.0, worst_xpoint_dist=0.0)
    nontrivial = 0
    refused = 0
    for a in arts:
        if not a.ok:
            refused += 1
            continue
        check_artefact(ctx, a, stats)
        check_file_corners(ctx, a, stats)
        nontrivial += 1
        ctx.sample(dict(config=a.config["label"], regions=len(a.side["regions"])), limit=5)
    ctx.set("evaluations", len(arts))
    ctx.set("distinct_nontrivial", nontrivial)
    ctx.set("refused_configurations", refused)
    ctx.set("grid_points_judged", stats["points"])
    ctx.set("pinned_corners_judged", stats["pinned"])
    ctx.set("file_corner_points_judged", stats.get("file_corner_points", 0))
    ctx.set("worst_pinned_corner_distance_m", stats["worst_xpoint_dist"])
    ctx.set("rule", "corpus of lattice.corpus(tier): every topology x {orthogonal, non-orthogonal} "
            "with 0 deviations plus the listed single deviations; a configuration is non-trivial "
            "when generation succeeded and all its points were judged (refused ones are counted "
            "separately)")
    ctx.set("exhaustive", True)
    ctx.assume("reference interpolant: scipy RectBivariateSpline / own cosine series of the input "
               "array, built by the checker; never hypnotoad's equilibrium.psi")


def replay(ctx, payload):
    from vlib import corpus

    arts = corpus.ensure([payload["replay"]["config"]], log=ctx.log)
    run(ctx, arts)
