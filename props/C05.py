"""C05 - hy and poloidal_distance are true arc lengths along flux surfaces.

E3-grid + independent tracing (ref/trace.py): for every region, every radial contour and
every pair of consecutive points the arc length is recomputed by integrating the tangent
field of the checker's own interpolant.  Plus an Nfine ladder for the quadratic
convergence clause.
"""

import numpy as np

from ref import trace
from vlib import gridutil as gu, lattice

LEVEL = "exploration"


def loc_arrays(A, name, k):
    """(even-point array row, odd-point array row) of variable `name` on contour k"""
    v = A[name]
    if k % 2 == 0:
        i = k // 2
        return v.get("corners", None), v.get("xlow", None), i, ("corners", "xlow")
    i = (k - 1) // 2
    return v.get("ylow", None), v.get("centre", None), i, ("ylow", "centre")


def values_on_contour(A, name, k, ny):
    """variable `name` at the 2ny+1 points of contour k (NaN where the location is absent)"""
    ev, od, i, _ = loc_arrays(A, name, k)
    out = np.full(2 * ny + 1, np.nan)
    if ev is not None:
        out[0::2] = ev[i, :]
    if od is not None:
        out[1::2] = od[i, :]
    return out


def nfine_of(a):
    return float(a.side["mesh"]["user_options"].get("finecontour_Nfine", 100))


def ladder_members(tier):
    out = []
    confs = [("lsn", True), ("lsn", False)] if tier == "quick" else \
        [("lsn", True), ("lsn", False), ("cdn", True), ("udn", True), ("usn", False), ("ldn", False)]
    nf = (25, 50, 100, 200)
    for g, orth in confs:
        for n in nf:
            out.append(lattice.mk(g, orth, opt=dict(finecontour_Nfine=n), tags=["nfine"]))
    return out


END_FLOOR = 3e-4


def end_floor(reg, m0, m1, abserr, tol):
    """Signature suffix for the characterised end-point defect: FineContour.getDistance
    cannot return more than the fine contour's own length (nor less than 0), so a contour end
    point lying a few 1e-5 m beyond the fine contour's end gets a distance that is too small by
    about twice that overshoot, whatever Nfine.  Only the first/last segment of a contour at
    a region join (not at a wall) and errors below 3e-4 m are put in this class."""
    ny = reg["ny"]
    at_lower = m0 == 0 and reg["connections"]["lower"] is not None
    at_upper = m1 == 2 * ny - 1 and reg["connections"]["upper"] is not None
    if (at_lower or at_upper) and abserr <= END_FLOOR + tol:
        return " [end-point floor <3e-4 m at a region join]"
    return ""


def check_artefact(ctx, a, stats, errs=None):
    side = a.side
    opts = side["mesh"]["user_options"]
    mode = "orth" if opts.get("orthogonal", True) else "nonorth"
    dy = side["mesh"]["dy_scalar"]
    nf = nfine_of(a)
    # hypnotoad measures distance along an Nfine-point polygon: relative error O(1/Nfine^2).
    # The constant is empirical: worst observed on the pinned tree 31/Nfine^2 (udn2, orth,
    # cell next to the X-point); 150 leaves a factor 5.  Index or hand-over errors are O(1).
    rtol = 200.0 / nf**2
    regs = {r["myID"]: r for r in side["regions"]}
    myg = int(opts.get("y_boundary_guards", 0))
    worst_rel = 0.0
    worst_inner = 0.0
    closed_x = {}
    ref = gu.ref_for(a)

    def V(what, reg, detail):
        detail.update(config=a.config["label"], region=reg["name"])
        ctx.violation("%s | %s" % (mode, what), detail, replay=dict(config=a.config))

    for group in side["mesh"]["y_groups"]:
        first = regs[group[0]]
        periodic = first["connections"]["lower"] is not None
        nx = first["nx"]
        for k in range(2 * nx + 1):
            total = 0.0
            total_allow = 0.0
            total_ok = True
            prev_last = None
            for gi, rid in enumerate(group):
                reg = regs[rid]
                ny = reg["ny"]
                A = reg["arrays"]
                tr = a.trace[rid]
                arc = tr["arc"][k]
                Pk = trace.contour_points(reg, k)
                allow = trace.curvature_allowance(tr["kappa"][k], nf, float(np.nansum(arc)))
                hy = values_on_contour(A, "hy", k, ny)
                pd = values_on_contour(A, "poloidal_distance", k, ny)
                if np.any(~(hy > 0)):
                    V("hy not strictly positive", reg, dict(contour=k))
                # hy at odd points (centre / xlow)
                want = arc[0::2] + arc[1::2]
                got = hy[1::2] * dy
                ok = np.isfinite(want)
                stats["hy_points"] += int(ok.sum())
                rel = np.abs(got - want) / want
                if ok.any():
                    worst_rel = max(worst_rel, float(np.nanmax(rel[ok])))
                tol_c = rtol + np.maximum(allow[0::2], allow[1::2])
                bad = ok & (rel > tol_c)
                for j in np.argwhere(bad).ravel():
                    j = int(j)
                    V("hy*dy differs from the arc length between the cell's y-faces%s | %s"
                      % (end_floor(reg, 2 * j, 2 * j + 1, abs(got[j] - want[j]), rtol * want[j]), loc_arrays(A, "hy", k)[3][1]),
                      reg, dict(contour=k, j=j, hy_dy=float(got[j]), arc=float(want[j]), rel=float(rel[j]), tol=rtol, n_bad=int(bad.sum())))
                    break
                inner = ok.copy()
                inner[[0, -1]] = False
                if inner.any():
                    worst_inner = max(worst_inner, float(np.nanmax(rel[inner])))
                # hy at interior even points (ylow / corners), including region joins
                for j in range(0, ny + 1):
                    if j == 0:
                        lo = reg["connections"]["lower"]
                        if lo is None:
                            continue
                        left = a.trace[lo]["arc"][k][-1]
                    else:
                        left = arc[2 * j - 1]
                    if j == ny:
                        up = reg["connections"]["upper"]
                        if up is None:
                            continue
                        right = a.trace[up]["arc"][k][0]
                    else:
                        right = arc[2 * j]
                    w = left + right
                    if not np.isfinite(w):
                        continue
                    g = hy[2 * j] * dy
                    stats["hy_points"] += 1
                    r_ = abs(g - w) / w
                    worst_rel = max(worst_rel, r_)
                    al = max(allow[2 * j - 1] if j > 0 else 0.0, allow[2 * j] if j < ny else 0.0)
                    if r_ > rtol + al:
                        V("hy*dy differs from the arc length between adjacent cell centres%s | %s%s"
                          % (" [end-point floor <3e-4 m]" if (j in (0, ny) and abs(g - w) <= 2 * END_FLOOR + rtol * w) else "",
                             loc_arrays(A, "hy", k)[3][0], " (region join)" if j in (0, ny) else ""),
                          reg, dict(contour=k, j=j, hy_dy=float(g), arc=float(w), rel=float(r_), tol=rtol))
                # poloidal_distance: increments are arc lengths, strictly increasing
                dpd = np.diff(pd)
                ok = np.isfinite(arc)
                stats["pd_increments"] += int(ok.sum())
                if np.any(~(dpd > 0)):
                    m = int(np.argwhere(~(dpd > 0))[0][0])
                    V("poloidal_distance not strictly increasing along y", reg, dict(contour=k, m=m, values=pd[m:m + 2].tolist()))
                err = np.abs(dpd - arc)
                bad = ok & (err > (rtol + allow) * arc + 1e-10)
                for m in np.argwhere(bad).ravel():
                    m = int(m)
                    V("poloidal_distance increment differs from the arc length%s" % end_floor(reg, m, m, err[m], rtol * arc[m]), reg,
                      dict(contour=k, m=m, increment=float(dpd[m]), arc=float(arc[m]), tol=float(rtol * arc[m])))
                    break
                # join continuity and origin
                if prev_last is not None and abs(pd[0] - prev_last) > 1e-12 * max(1.0, abs(prev_last)):
                    V("poloidal_distance discontinuous across a region join", reg,
                      dict(contour=k, below=float(prev_last), above=float(pd[0])))
                prev_last = pd[-1]
                if gi == 0 and periodic and k == 1:
                    # documented origin on closed surfaces: the first core cell in y-index order
                    # (the lower X-point's poloidal location in the standard ordering)
                    first_in_y = min(group, key=lambda r_: regs[r_]["yslice"][0])
                    if first_in_y != rid:
                        V("closed surfaces: poloidal_distance is not measured from the first core cell in y-index order",
                          reg, dict(starts_in=reg["name"], first_core_region_in_y=regs[first_in_y]["name"]))
                if gi == 0:
                    origin = 0 if periodic else 2 * myg
                    if abs(pd[origin]) > 1e-12:
                        V("poloidal_distance is not zero at its documented origin (%s)"
                          % ("first core cell" if periodic else "lower target"), reg,
                          dict(contour=k, point=origin, value=float(pd[origin])))
                if np.all(np.isfinite(arc)):
                    total += float(arc.sum())
                    total_allow += float(np.sum(allow * arc))
                else:
                    total_ok = False
            # circumference of closed surfaces (file variable at centre contours)
            if k % 2 == 1:
                i = (k - 1) // 2
                x0 = first["xslice"][0]
                tpd = a.nc["total_poloidal_distance"][x0 + i]
                closed_x[x0 + i] = closed_x.get(x0 + i, False) or periodic
                if periodic:
                    stats["closed_surfaces"] += 1
                    if total_ok and not (abs(tpd - total) <= rtol * total + total_allow):
                        floor_ok = abs(tpd - total) <= rtol * total + 2 * len(group) * END_FLOOR
                        V("total_poloidal_distance differs from the circumference%s" % (" [end-point floor]" if floor_ok else ""), first,
                          dict(contour=k, got=float(tpd), circumference=total, tol=rtol * total))
                else:
                    stats["open_surfaces"] += 1
    tpd_all = a.nc["total_poloidal_distance"]
    for x in range(len(tpd_all)):
        if not closed_x.get(x, False) and np.isfinite(tpd_all[x]):
            ctx.violation("%s | total_poloidal_distance defined where no surface is closed" % mode,
                          dict(config=a.config["label"], x=x, value=float(tpd_all[x])), replay=dict(config=a.config))
    miss = max(float(np.nanmax(t["miss"])) for t in a.trace.values())
    ctx.setmax("worst_trace_miss_distance_m", miss)
    ctx.setmax("worst_rel_arc_error_times_Nfine^2", worst_rel * nf**2)
    if errs is not None and "nfine" in a.config.get("tags", []):
        errs[(a.config["geom"], mode, int(nf))] = worst_inner
    return worst_rel


def run(ctx, arts=None, ladder=True):
    if arts is None:
        extra = ladder_members(ctx.tier) if ladder else None
        arts = gu.select(ctx.tier, log=ctx.log, extra=extra)
    arts = gu.rotate(arts, ctx.seed)
    trace.ensure_traces(arts, log=ctx.log)
    stats = dict(hy_points=0, pd_increments=0, closed_surfaces=0, open_surfaces=0)
    errs = {}
    n = refused = 0
    for a in arts:
        if not a.ok:
            refused += 1
            continue
        check_artefact(ctx, a, stats, errs)
        n += 1
        ctx.sample(dict(config=a.config["label"]), limit=5)
    # quadratic convergence on the ladder: error ratio per doubling of Nfine
    ratios = {}
    for (g, mode, nf), e in sorted(errs.items()):
        e2 = errs.get((g, mode, 2 * nf))
        if e2 is not None:
            ratios["%s/%s/%d->%d" % (g, mode, nf, 2 * nf)] = e / e2 if e2 > 0 else float("inf")
    for key, r in ratios.items():
        # only cells away from the contour ends enter the ladder (see end_floor); below
        # 1e-6 relative the tracing/refinement floor is reached and the ratio is meaningless
        nf0 = int(key.split("/")[2].split("->")[0])
        g0, m0 = key.split("/")[0], key.split("/")[1]
        if errs[(g0, m0, 2 * nf0)] < 2e-6:
            continue
        if r < 2.5:
            ctx.violation("Nfine ladder | arc-length error does not shrink quadratically",
                          dict(step=key, ratio=r, errors={str(k_): v for k_, v in errs.items()}),
                          replay=dict(kind="ladder"))
    ctx.set("nfine_ladder_error_ratios", ratios)
    ctx.set("evaluations", len(arts))
    ctx.set("distinct_nontrivial", n)
    ctx.set("refused_configurations", refused)
    for k, v in stats.items():
        ctx.set(k, v)
    ctx.set("rule", "corpus lattice plus Nfine ladders; non-trivial = generated and traced; every "
            "consecutive pair of points of every radial contour of every region is one arc-length judgement")
    ctx.set("exhaustive", True)
    ctx.assume("arc lengths: DOP853 integration (rtol 1e-10) of the tangent field of the checker's own "
               "interpolant from each grid point to the closest approach of the next; tolerance 18/Nfine^2 "
               "relative (chord error of the fine contour), one-sided target estimates are not judged")


def replay(ctx, payload):
    from vlib import corpus

    rp = payload["replay"]
    if rp.get("kind") == "ladder":
        run(ctx)
        return
    arts = corpus.ensure([rp["config"]], log=ctx.log)
    run(ctx, arts, ladder=False)
