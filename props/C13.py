"""C13 - parallel execution is observationally equivalent to serial execution.

Engine E1 (engine/sched.py): exhaustive exploration of all schedules of the real
ParallelMap under a virtual multiprocessing module, for a lattice of (workers, call
histories, failing positions, feeder-delay budget).  Conformance: the same bodies on real
processes, outcome must be a member of the explored outcome set.  Plus one differential
grid generated with number_of_processors=2 and 1 (corpus).
"""

import itertools
import json
import os
import signal
import subprocess
import sys
import time
from concurrent.futures import ProcessPoolExecutor

from engine import sched

LEVEL = "model_checking"
HERE = os.path.dirname(os.path.dirname(os.path.abspath(__file__)))


# ---- harness bodies (module level: picklable) -------------------------------------
class FakeEq:
    def __init__(self):
        self.tag = "eq"

    def psi(self, R, Z):
        return R + Z

    def f_R(self, R, Z):
        return R

    def f_Z(self, R, Z):
        return Z


def task(i, fail, callno, *, equilibrium, psi, f_R, f_Z, tag):
    if fail == 2:
        # what a refine_timeout expiry raises inside a task: derives from BaseException
        from func_timeout import FunctionTimedOut

        raise FunctionTimedOut("task %d of call %d timed out" % (i, callno))
    if fail == 3:
        # an exception that the standard pickle cannot serialise (class local to a function, as
        # FunctionTimedOut carrying a nested function is in the library) but dill can
        class LocalError(Exception):
            pass

        raise LocalError("task %d of call %d failed with an unpicklable exception" % (i, callno))
    if fail:
        raise ValueError("task %d of call %d failed" % (i, callno))
    return ("r", callno, i, tag, psi(i, 0.5))


def calls_args(calls):
    """calls: list of (n, fails); fails holds task indices that raise ValueError, negative
    numbers -(i+1) for tasks that raise FunctionTimedOut, or 1000+i for tasks that raise an
    exception the standard pickle cannot serialise"""
    out = []
    for c, (n, fails) in enumerate(calls):
        out.append([(i, 2 if -(i + 1) in fails else (3 if (1000 + i) in fails else (1 if i in fails else 0)), c)
                    for i in range(n)])
    return out


def run_calls(pm, calls):
    obs = []
    for args_list in calls_args(calls):
        try:
            r = pm(task, args_list, tag="t")
            obs.append(("ok", tuple(r)))
        except sched.Abort:
            raise
        except BaseException as e:  # noqa: BLE001 - FunctionTimedOut is a BaseException
            if type(e).__name__ in ("KeyboardInterrupt", "SystemExit", "GeneratorExit"):
                raise
            obs.append(("exc", type(e).__name__, str(e)[:80]))
    return tuple(obs)


def make_body(nw, calls):
    import hypnotoad.utils.parallel_map as pmod

    def body(vmp):
        pmod.multiprocessing = vmp
        pm = pmod.ParallelMap(nw, equilibrium=FakeEq())
        obs = run_calls(pm, calls)
        pm.__del__()
        pm.workers = None
        return obs

    return body


def serial_reference(calls):
    import multiprocessing

    import hypnotoad.utils.parallel_map as pmod

    pmod.multiprocessing = multiprocessing
    pm = pmod.ParallelMap(1, equilibrium=FakeEq())
    return run_calls(pm, calls)


def judge(obs, ref):
    """None if the parallel observation is acceptable given the serial one."""
    if len(obs) != len(ref):
        return "number of calls observed differs"
    for k, (o, r) in enumerate(zip(obs, ref)):
        if r[0] == "ok":
            if o != r:
                return "call %d: serial returns %r, parallel gives %r" % (k, r, o)
        else:
            if o[0] != "exc":
                return "call %d: serial raises %s, parallel returns %r" % (k, r[1], o)
            # "an exception as it would serially": when several tasks fail, serial execution
            # raises the failure of the first one in task order, whatever order they finish in
            # (judged for ordinary exceptions; a FunctionTimedOut or an unpicklable exception may
            # legitimately arrive wrapped)
            if r[1] == "ValueError" and tuple(o[1:]) != tuple(r[1:]):
                return "call %d: serial raises %s(%r), parallel raises %s(%r)" % (k, r[1], r[2], o[1], o[2] if len(o) > 2 else None)
    return None


# ---- one cell ---------------------------------------------------------------------
def explore_cell(cell):
    nw, calls, delay, max_exec = cell
    calls = [(n, frozenset(f)) for n, f in calls]
    ref = serial_reference(calls)
    body = make_body(nw, calls)
    t0 = time.time()
    st = sched.explore(body, delay_budget=delay, max_exec=max_exec)
    bad = []
    outs = []
    for (krepr, alive), (cnt, choices, key, alive_l, trace) in st["outcomes"].items():
        kind = key[0]
        if kind == "done":
            why = judge(key[1], ref)
            if why is None and alive_l:
                why = "worker processes still alive after __del__: %s" % (alive_l,)
            outs.append(("done", key[1]))
        elif kind == "blocked":
            why = "blocks forever: " + key[1]
            outs.append(("blocked",))
        elif kind == "horizon":
            why = "did not finish within %d scheduling steps (livelock?)" % key[1]
            outs.append(("horizon",))
        else:
            why = "harness body raised: %s" % (key[1],)
            outs.append(("harness-exc", key[1]))
        if why is not None:
            bad.append(dict(why=why, choices=choices, count=cnt, trace=trace[-12:],
                            kind=kind))
    return dict(
        cell=(nw, [(n, sorted(f)) for n, f in calls], delay),
        ref=ref,
        executions=st["executions"], states=st["states"], transitions=st["transitions"],
        pruned=st["pruned"], maxdepth=st["maxdepth"], complete=st["complete"],
        outcomes=sorted(set(map(repr, outs))), bad=bad, wall=time.time() - t0,
    )


def replay_cell(cell, choices):
    nw, calls, delay = cell
    calls = [(n, frozenset(f)) for n, f in calls]
    ref = serial_reference(calls)
    body = make_body(nw, calls)
    ex1 = sched.run_schedule(body, choices, delay)
    ex2 = sched.run_schedule(body, choices, delay)
    if ex1.outcome != ex2.outcome or ex1.trace != ex2.trace:
        raise sched.Divergence("two replays of one schedule differ")
    return ex1, ref


# ---- free-running conformance -----------------------------------------------------
FREE_SRC = r"""
import sys, json
sys.path.insert(0, %r)
from props import C13
import hypnotoad.utils.parallel_map as pmod
nw, calls = json.loads(sys.argv[1])
calls = [(n, frozenset(f)) for n, f in calls]
pm = pmod.ParallelMap(nw, equilibrium=C13.FakeEq())
obs = C13.run_calls(pm, calls)
pm.__del__(); pm.workers = None
print("OBS=" + repr(obs))
""" % (HERE,)


def free_run(arg):
    """one free-running execution on real processes.  "blocked" is a verdict about the code, not
    about the machine: an attempt that does not finish within the short timeout is repeated once
    with a 15 times longer one (start-up of 1 + nw interpreters took more than 6 s on a loaded
    machine in 2 of 2760 runs) before it is reported as blocked."""
    nw, calls, timeout = arg
    out = _free_run_once(nw, calls, timeout)
    if out == repr(("blocked",)):
        out = _free_run_once(nw, calls, 15.0 * timeout)
    return out


def _free_run_once(nw, calls, timeout):
    p = subprocess.Popen(
        [sys.executable, "-c", FREE_SRC, json.dumps([nw, calls])],
        stdout=subprocess.PIPE, stderr=subprocess.DEVNULL, start_new_session=True,
        text=True,
    )
    try:
        out, _ = p.communicate(timeout=timeout)
    except subprocess.TimeoutExpired:
        out = None
    finally:
        try:
            os.killpg(p.pid, signal.SIGKILL)
        except ProcessLookupError:
            pass
        p.wait()
    if out is None:
        return repr(("blocked",))
    for line in out.splitlines():
        if line.startswith("OBS="):
            return repr(("done", eval(line[4:])))  # noqa: S307 - our own repr
    return repr(("crashed", out[-200:]))


# ---- lattice ----------------------------------------------------------------------
def failsets(n, maxfail):
    out = [()]
    for k in range(1, maxfail + 1):
        out += list(itertools.combinations(range(n), k))
    # a single task that times out (FunctionTimedOut, a BaseException) at each position
    out += [(-(i + 1),) for i in range(n)]
    # a single task raising an exception that does not survive multiprocessing's pickling
    out += [(1000 + i,) for i in range(n)]
    return out


def lattice(tier):
    cells = []
    if tier == "quick":
        single = [(2, n) for n in range(0, 5)] + [(3, n) for n in range(0, 4)]
        maxfail = 1
        delays = (0, 1)
        two = [(2, n1, n2) for n1 in (1, 2) for n2 in (1, 2)]
    else:
        single = ([(2, n) for n in range(0, 7)] + [(3, n) for n in range(0, 6)]
                  + [(4, n) for n in range(0, 5)])
        maxfail = 2
        delays = (0, 1, 2)
        two = [(nw, n1, n2) for nw in (2, 3) for n1 in (1, 2, 3) for n2 in (1, 2, 3)]
    for nw, n in single:
        # the execution count grows by ~5x per extra task and ~2x per extra feeder delay
        # (measured: 3 workers, 5 tasks, 2 delays = 138k executions per cell): calls with more
        # than 4 tasks are explored with single failures and at most one feeder delay
        big = n > 4
        # two simultaneous failures (which exception reaches the caller?) also in the quick tier
        # for calls of <= 3 tasks
        for f in failsets(n, 1 if big else (2 if n <= 3 else maxfail)):
            for d in (delays[:2] if big else delays):
                cells.append((nw, [(n, list(f))], d))
    for nw, n1, n2 in two:
        # two consecutive calls on one ParallelMap: failures in both calls at once only for small
        # calls (measured: 3 workers, calls of 3+3 tasks, one feeder delay = 56k executions per
        # cell, times 100 failure combinations)
        for f1 in failsets(n1, 1):
            for f2 in failsets(n2, 1):
                if n1 + n2 > 4 and f1 and f2:
                    continue
                for d in (delays[:2] if n1 + n2 < 6 else delays[:1]):
                    cells.append((nw, [(n1, list(f1)), (n2, list(f2))], d))
    return cells


def run(ctx):
    cells = lattice(ctx.tier)
    cap = int(os.environ.get("VERIF_C13_CAP", 0)) or (60000 if ctx.tier == "quick" else 400000)
    order = list(range(len(cells)))
    # the seed only permutes the work order; the explored set is identical
    k = ctx.seed % max(1, len(order))
    order = order[k:] + order[:k]
    jobs = [cells[i] + (cap,) for i in order]
    ctx.log("exploring %d cells" % len(jobs))
    nproc = min(16, os.cpu_count() or 1)
    states = transitions = execs = 0
    incomplete = []
    outcome_sets = {}
    distinct_outcomes = set()
    with ProcessPoolExecutor(nproc) as pool:
        for res in pool.map(explore_cell, jobs, chunksize=1):
            states += res["states"]
            transitions += res["transitions"]
            execs += res["executions"]
            if not res["complete"]:
                incomplete.append(res["cell"])
            if res.get("wall", 0) > 60 or not res["complete"]:
                ctx.log("cell %s: %d executions, %d states, %.0f s%s" % (
                    res["cell"], res["executions"], res["states"], res.get("wall", 0),
                    "" if res["complete"] else "  (CAPPED)"))
            key = json.dumps(res["cell"][:2])
            outcome_sets.setdefault(key, set()).update(res["outcomes"])
            distinct_outcomes.update(res["outcomes"])
            ctx.sample(dict(cell=res["cell"], executions=res["executions"],
                            states=res["states"], outcomes=res["outcomes"][:3]), limit=4)
            for b in res["bad"]:
                nw, calls, d = res["cell"]
                anyfail = any(f for _, f in calls)
                timeout_kind = any(x < 0 for _, f in calls for x in f)
                unpicklable_kind = any(x >= 1000 for _, f in calls for x in f)
                if b["kind"] == "blocked" and unpicklable_kind:
                    sig = "task raises an exception the standard pickle cannot serialise | parent blocks forever on result_queue.get"
                elif b["kind"] == "blocked" and timeout_kind:
                    sig = "task raises FunctionTimedOut (BaseException) | parent blocks forever on result_queue.get"
                elif b["kind"] == "blocked" and anyfail:
                    sig = "task raises | parent blocks forever on result_queue.get"
                elif b["kind"] == "blocked":
                    sig = "no failing task | blocks forever"
                else:
                    sig = "%s | %s" % (b["kind"], b["why"][:60])
                ctx.violation(
                    sig,
                    dict(cell=res["cell"], why=b["why"], schedules_with_this_outcome=b["count"],
                         trace_tail=b["trace"], serial=res["ref"]),
                    replay=dict(kind="schedule", cell=res["cell"], choices=b["choices"]),
                )
    ctx.set("states", states)
    ctx.set("transitions", transitions)
    ctx.set("executions", execs)
    ctx.set("cells", len(jobs))
    ctx.set("cells_capped", incomplete)
    ctx.set("exhaustive", not incomplete)
    ctx.set("distinct_observed_outcomes", len(distinct_outcomes))
    ctx.set("bounds", dict(
        interleavings="all (state-matched DFS, no preemption bound)",
        feeder_delay_deviations=[0, 1] if ctx.tier == "quick" else [0, 1, 2],
        cap_executions_per_cell=cap))

    # ---- conformance: real processes ----
    reps = 2 if ctx.tier == "quick" else 4
    free_cells = sorted(outcome_sets)
    if ctx.tier == "quick":
        free_cells = [c for c in free_cells if json.loads(c)[0] == 2 or len(json.loads(c)[1]) == 1]
    fjobs = []
    for c in free_cells:
        nw, calls = json.loads(c)
        for _ in range(reps):
            fjobs.append((nw, calls, 6.0))
    ctx.log("conformance: %d free runs on real processes" % len(fjobs))
    validated = 0
    from concurrent.futures import ThreadPoolExecutor

    with ThreadPoolExecutor(12) as tp:
        results = list(tp.map(free_run, fjobs))
    for (nw, calls, _), got in zip(fjobs, results):
        key = json.dumps([nw, calls])
        if got in outcome_sets[key]:
            validated += 1
        else:
            ctx.violation(
                "conformance | real-process outcome outside the explored set",
                dict(cell=[nw, calls], observed=got, explored=sorted(outcome_sets[key])),
                replay=dict(kind="free", cell=[nw, calls]),
            )
    ctx.set("traces_validated_against_impl", validated)
    ctx.set("free_runs", len(fjobs))
    ctx.assume("virtual multiprocessing: per-producer FIFO queues with optional feeder delay, "
               "atomic pipe transfer, SIGTERM kills a blocked worker immediately; OS-level "
               "failures (fork, pipe errors) are not modelled")

    # ---- differential grid: number_of_processors 2 vs 1 ----
    try:
        from props import C13grid
    except ImportError:
        C13grid = None
    if C13grid is not None:
        C13grid.run(ctx)


def replay(ctx, payload):
    rp = payload["replay"]
    if rp["kind"] == "schedule":
        nw, calls, d = rp["cell"]
        ex, ref = replay_cell((nw, calls, d), rp["choices"])
        print("schedule trace:", " ".join(ex.trace))
        print("outcome:", ex.outcome, "serial:", ref)
        why = None
        if ex.outcome[0] == "done":
            why = judge(ex.outcome[1], ref)
            if why is None and ex.alive_workers():
                why = "workers alive after __del__"
        else:
            why = "%s: %s" % ex.outcome
        if why:
            ctx.violation(payload["signature"], dict(why=why), replay=rp)
    elif rp["kind"] == "free":
        nw, calls = rp["cell"]
        print("free run outcome:", free_run((nw, calls, 6.0)))
    elif rp["kind"] == "grid":
        from props import C13grid

        C13grid.replay(ctx, payload)
