"""C16 - equivariance under reflection and field reversal of the equilibrium.

E3-grid pairs: a configuration and its mirror image in Z=0 (input array flipped bit-exactly,
wall mirrored, lower/upper options exchanged); the symmetric connected double null against
its own mirror map; reversal pairs (sigma=-1 data, reverse_current, reverse_Bt,
psi_divide_twopi).
"""

import numpy as np

from vlib import gridutil as gu, lattice

LEVEL = "exploration"

SWAP = {"ny_inner_lower_divertor": "ny_inner_upper_divertor", "ny_inner_upper_divertor": "ny_inner_lower_divertor",
        "ny_outer_lower_divertor": "ny_outer_upper_divertor", "ny_outer_upper_divertor": "ny_outer_lower_divertor",
        "psinorm_pf_lower": "psinorm_pf_upper", "psinorm_pf_upper": "psinorm_pf_lower",
        "target_inner_lower_poloidal_spacing_length": "target_inner_upper_poloidal_spacing_length",
        "target_inner_upper_poloidal_spacing_length": "target_inner_lower_poloidal_spacing_length",
        "target_outer_lower_poloidal_spacing_length": "target_outer_upper_poloidal_spacing_length",
        "target_outer_upper_poloidal_spacing_length": "target_outer_lower_poloidal_spacing_length"}


def xfloor(a):
    from ref import interp

    ref = gu.ref_for(a)
    atol = float(a.side["eq"]["user_options"].get("xpoint_refine_atol", 1e-6))
    worst = 0.0
    for xp in a.inputs["x_points"][:2]:
        Rx, Zx = interp.newton_critical(ref, xp["R"], xp["Z"])
        hRR, hZZ, hRZ = ref.hess(Rx, Zx)
        lam = np.abs(np.linalg.eigvalsh(np.array([[float(hRR), float(hRZ)], [float(hRZ), float(hZZ)]]))).min()
        worst = max(worst, Rx * np.sqrt(atol) / lam)
    return float(worst)


def mirror_region_name(n):
    if "lower" in n:
        return n.replace("lower", "upper")
    return n.replace("upper", "lower")


def mirror_pairs(tier):
    out = []
    dn_opts = dict(ny_inner_lower_divertor=3, ny_inner_upper_divertor=4, ny_outer_upper_divertor=5,
                   ny_outer_lower_divertor=3, psinorm_pf_lower=0.92, psinorm_pf_upper=0.88)
    # single null with a per-leg private-flux range: psinorm_pf_lower of the lower null maps to
    # psinorm_pf_upper of its mirror image
    geoms = [("lsn", dict(psinorm_pf_lower=0.93)), ("ldn", dn_opts)]
    if tier == "thorough":
        geoms += [("udn", dn_opts), ("cdn", dn_opts), ("udn2", dn_opts)]
    for g, o in geoms:
        for orth in (True, False):
            for nf in ((50, 100) if (g == "lsn" or tier == "thorough") else (50,)):
                oa = dict(o, finecontour_Nfine=nf)
                ob = {SWAP.get(k, k): v for k, v in oa.items()}
                a = lattice.mk(g, orth, opt=oa, tags=["mirrorA"])
                b = lattice.mk(g, orth, opt=ob, mirror=True, tags=["mirrorB"])
                out.append((a, b, "%s/%s/Nfine=%d" % (g, "orth" if orth else "nonorth", nf)))
    # per-leg target spacings that differ between the inner and the outer leg (lower <-> upper
    # option names exchanged for the mirror image)
    tl = dict(target_inner_lower_poloidal_spacing_length=0.15, target_outer_lower_poloidal_spacing_length=0.45,
              finecontour_Nfine=50)
    for orth in (True, False):
        a = lattice.mk("lsn", orth, opt=tl, tags=["mirrorA"])
        b = lattice.mk("lsn", orth, opt={SWAP.get(k, k): v for k, v in tl.items()}, mirror=True, tags=["mirrorB"])
        out.append((a, b, "lsn/%s/per-leg target spacing" % ("orth" if orth else "nonorth")))
    # non-orthogonal spacing ranges that differ between the private-flux and the SOL side: the
    # X.wall legs of one image are the wall.X legs of the other
    non = dict(nonorthogonal_target_all_poloidal_spacing_range_inner=0.4,
               nonorthogonal_target_all_poloidal_spacing_range_outer=1.6)
    for g in (("lsn",) if tier == "quick" else ("lsn", "cdn", "ldn")):
        o = dict(finecontour_Nfine=50)
        a = lattice.mk(g, False, opt=o, non=non, tags=["mirrorA"])
        b = lattice.mk(g, False, opt=o, non=non, mirror=True, tags=["mirrorB"])
        out.append((a, b, "%s/nonorth/range_inner!=range_outer" % g))
    if tier == "thorough":
        a = lattice.mk("lsn", True, opt=dict(psi_interpolation_method="dct"), nR=33, nZ=41, tags=["mirrorA"])
        b = lattice.mk("lsn", True, opt=dict(psi_interpolation_method="dct"), nR=33, nZ=41, mirror=True, tags=["mirrorB"])
        out.append((a, b, "lsn/orth/dct"))
    return out


EQUAL = ["psixy", "hy", "Bxy", "g11", "g22", "g33", "g_11", "g_22", "g_33", "pressure"]
ABS = ["Bpxy", "J"]


def compare_mirror(ctx, a, b, label, selfmap=False):
    """a's regions against the y-reversed regions of b (b = a for the self map)"""
    ra = {r["name"]: r for r in a.side["regions"]}
    rb = {r["name"]: r for r in b.side["regions"]}
    worst_pos = 0.0
    worst_rel = {}
    xpoint_shift = []
    worst_edge = [0.0]
    for name, A in ra.items():
        mname = mirror_region_name(name.split("(")[0]) + "(" + name.split("(")[1]
        if mname not in rb:
            ctx.violation("mirror | region has no mirror partner", dict(pair=label, region=name, wanted=mname),
                          replay=dict(kind="mirror", label=label))
            return None
        B = rb[mname]
        if (A["nx"], A["ny"]) != (B["nx"], B["ny"]):
            ctx.violation("mirror | partner regions have different sizes",
                          dict(pair=label, region=name, a=[A["nx"], A["ny"]], b=[B["nx"], B["ny"]]),
                          replay=dict(kind="mirror", label=label))
            return None
        for loc in gu.LOCS:
            Ra, Za = A["arrays"]["Rxy"][loc], A["arrays"]["Zxy"][loc]
            Rb, Zb = B["arrays"]["Rxy"][loc][:, ::-1], B["arrays"]["Zxy"][loc][:, ::-1]
            d = np.hypot(Ra - Rb, Za + Zb)
            dom = gu.in_domain(a, Ra, Za)
            # points on the radial line through an X-point (the y-edge of a region that ends
            # at an X-point) are computed independently by the two regions sharing the edge
            # and taken from the upper one; they agree only to ~1e-4 m, and which region is
            # "upper" is exchanged by the reflection
            edge = np.zeros(Ra.shape, bool)
            if loc in ("ylow", "corners"):
                if any(p is not None for p in A["xPointsAtStart"]):
                    edge[:, 0] = True
                if any(p is not None for p in A["xPointsAtEnd"]):
                    edge[:, -1] = True
            if (dom & ~edge).any():
                worst_pos = max(worst_pos, float(d[dom & ~edge].max()))
            if (dom & edge).any():
                worst_edge[0] = max(worst_edge[0], float(d[dom & edge].max()))
            if loc == "corners":
                pin0, xps = gu.pinned_corner_mask(A)
                for (i, j) in xps:
                    xpoint_shift.append(float(d[i, j]))
            for v in EQUAL + ABS:
                if loc not in A["arrays"][v] or loc not in B["arrays"][v]:
                    continue
                va, vb = A["arrays"][v][loc], B["arrays"][v][loc][:, ::-1]
                if v in ABS:
                    va, vb = np.abs(va), np.abs(vb)
                pin = np.zeros(va.shape, bool)
                if loc == "corners":
                    pin, _ = gu.pinned_corner_mask(A)
                ok = dom & ~pin & ~edge & np.isfinite(va) & np.isfinite(vb)
                if ok.any():
                    rel = np.abs(va - vb)[ok] / np.maximum(np.abs(va[ok]), 1e-300)
                    worst_rel[v] = max(worst_rel.get(v, 0.0), float(rel.max()))
    return worst_pos, worst_rel, worst_edge[0]


def int_map_mirror(nc_a, nc_b, double, a=None):
    """expected integers of the mirrored grid from those of the original.

    Single null: the mirrored grid is the original with the y index reversed.  Double null:
    hypnotoad always orders the regions inner-lower ... outer-lower, so the mirrored grid is
    not the y-reversed original at file level; the per-region sizes are exchanged
    lower<->upper on each side and ixseps1 <-> ixseps2."""
    ny = int(nc_a["ny"])
    g = lambda k: int(nc_a[k])  # noqa: E731
    want = dict(nx=g("nx"), ny=ny, y_boundary_guards=g("y_boundary_guards"))
    if not double:
        want["jyseps1_1"] = ny - 2 - g("jyseps2_2")
        want["jyseps2_2"] = ny - 2 - g("jyseps1_1")
        want["ixseps1"], want["ixseps2"] = g("ixseps1"), g("ixseps2")
        return want
    sz = a.side["eq"]["region_ny_noguards"]
    il, ic, iu = sz["inner_lower_divertor"], sz["inner_core"], sz["inner_upper_divertor"]
    ou, oc, ol = sz["outer_upper_divertor"], sz["outer_core"], sz["outer_lower_divertor"]
    b = [iu, ic, il, ol, oc, ou]  # sizes of the mirrored grid in its own region order
    want["ixseps1"], want["ixseps2"] = g("ixseps2"), g("ixseps1")
    want["jyseps1_1"] = b[0] - 1
    want["jyseps2_1"] = b[0] + b[1] - 1
    want["ny_inner"] = b[0] + b[1] + b[2]
    want["jyseps1_2"] = sum(b[:4]) - 1
    want["jyseps2_2"] = sum(b[:5]) - 1
    return want


def reversal_members():
    mk = lattice.mk
    out = {}
    # disconnected double null with three inter-separatrix cells (the only radial segment with
    # both end gradients prescribed), orthogonal
    # multiplier chosen so that (separatrix gradient x cells) / (distance between the separatrices)
    # is about 1.5: the branch of the spacing function that *increases* the average spacing
    o3 = dict(nx_inter_sep=3, psi_spacing_separatrix_multiplier=0.25)
    out["ldn-orth-nx_inter_sep=3"] = dict(
        base=mk("ldn", True, opt=o3),
        sigma=mk("ldn", True, opt=o3, sigma=-1.0, tags=["sigma"]),
        reverse_current=mk("ldn", True, opt=dict(o3, reverse_current=True), tags=["signs"]),
    )
    # unequal radial cell widths in core, SOL and private flux region: the separatrix spacing is
    # the smallest of the three in magnitude whatever the sign of psi
    ow = dict(nx_core=3, nx_sol=4, psinorm_sol=1.2, psinorm_pf=0.95)
    out["orth-unequal-radial-widths"] = dict(
        base=mk("lsn", True, opt=ow),
        sigma=mk("lsn", True, opt=ow, sigma=-1.0, tags=["sigma"]),
        reverse_current=mk("lsn", True, opt=dict(ow, reverse_current=True), tags=["signs"]),
    )
    for orth in (True, False):
        m = "orth" if orth else "nonorth"
        out[m] = dict(
            base=mk("lsn", orth),
            sigma=mk("lsn", orth, sigma=-1.0, tags=["sigma"]),
            reverse_current=mk("lsn", orth, opt=dict(reverse_current=True), tags=["signs"]),
            reverse_Bt=mk("lsn", orth, opt=dict(reverse_Bt=True), tags=["signs"]),
            psi_divide_twopi=mk("lsn", orth, opt=dict(psi_divide_twopi=True), tags=["signs"]),
        )
    return out


def check_reversal(ctx, arts_by, stats):
    twopi = 2 * np.pi
    # variable -> factor under each transformation (None = not judged)
    same = dict(Rxy=1, Zxy=1, hy=1, Bxy=1, g11=1, g22=1, g33=1, g_11=1, g_22=1, g_33=1, poloidal_distance=1,
                pressure=1)
    rules = {
        "reverse_current": dict(same, psixy=-1, Brxy=-1, Bzxy=-1, Bpxy=-1, Btxy=1, dx=-1, zShift=1, J=-1),
        "sigma": dict(same, psixy=-1, Brxy=-1, Bzxy=-1, Bpxy=-1, Btxy=1, dx=-1, zShift=1, J=-1),
        "reverse_Bt": dict(same, psixy=1, Brxy=1, Bzxy=1, Bpxy=1, Btxy=-1, dx=1, zShift=-1, dphidy=-1, J=1, g23=-1, g_23=-1),
        "psi_divide_twopi": dict(Rxy=1, Zxy=1, hy=1, psixy=1 / twopi, Brxy=1 / twopi, Bzxy=1 / twopi, Bpxy=1 / twopi,
                                 Btxy=1, dx=1 / twopi, g11=1 / twopi**2, g22=1, g_11=twopi**2, g_22=None, J=twopi,
                                 zShift=twopi, poloidal_distance=1, pressure=1),
    }
    for mode, d in arts_by.items():
        base = d["base"]
        if not base.ok:
            continue
        for kind, rule in rules.items():
            if kind not in d:
                continue
            other = d[kind]
            if not other.ok:
                if kind == "psi_divide_twopi":
                    # a rescaling is not exact in floating point and moves every point within
                    # the (absolute, psi-unit) tolerances; a refusal by a run-time guard is an
                    # explicit error (C12), there is no grid to compare
                    stats["reversal_pairs_refused_after_rescaling"] += 1
                    continue
                ctx.violation("reversal | %s refuses what the unreversed configuration generates" % kind,
                              dict(mode=mode, error=other.meta.get("exc_msg")), replay=dict(kind="reversal"))
                continue
            stats["reversal_pairs"] += 1
            rb = {r["name"]: r for r in base.side["regions"]}
            ro = {r["name"]: r for r in other.side["regions"]}
            for name, A in rb.items():
                B = ro.get(name)
                if B is None or (A["nx"], A["ny"]) != (B["nx"], B["ny"]):
                    ctx.violation("reversal | %s changes the region structure" % kind, dict(mode=mode, region=name),
                                  replay=dict(kind="reversal"))
                    break
                for v, fac in rule.items():
                    if fac is None or v not in A["arrays"]:
                        continue
                    for loc in gu.LOCS:
                        if loc not in A["arrays"][v] or loc not in B["arrays"].get(v, {}):
                            continue
                        va, vb = A["arrays"][v][loc] * fac, B["arrays"][v][loc]
                        dom = gu.in_domain(base, A["arrays"]["Rxy"][loc], A["arrays"]["Zxy"][loc])
                        pin = np.zeros(va.shape, bool)
                        if loc == "corners":
                            pin, _ = gu.pinned_corner_mask(A)
                        ok = dom & ~pin & np.isfinite(va) & np.isfinite(vb)
                        if not ok.any():
                            continue
                        # positions agree to the refinement tolerance; fields to that tolerance
                        # propagated through their gradients (calibrated, see evidence)
                        # psi_divide_twopi: the tolerances of the library are absolute in psi
                        # units (xpoint_refine_atol on |grad psi|^2/R^2, refine_atol,
                        # follow_perpendicular_atol), so after dividing psi by 2*pi the X-point
                        # and every point derived from it are located 2*pi..40x less precisely
                        loose = 40.0 if kind == "psi_divide_twopi" else 1.0
                        if v in ("Rxy", "Zxy"):
                            err = np.abs(va - vb)[ok].max()
                            tol = 2e-7 * loose * 25
                        else:
                            sc = np.abs(va[ok]).max()
                            err = (np.abs(va - vb)[ok] / np.maximum(np.abs(va[ok]), 1e-3 * sc)).max()
                            tol = 2e-5 * loose * 25
                        stats["reversal_fields"] += 1
                        ctx.setmax("worst_reversal_residual_over_tol", float(err / tol))
                        if err > tol:
                            ctx.violation("reversal | %s | %s is not %s times the unreversed value" % (kind, v, "%g" % fac),
                                          dict(mode=mode, region=name, loc=loc, residual=float(err), tol=tol),
                                          replay=dict(kind="reversal"))


def run(ctx):
    pairs = mirror_pairs(ctx.tier)
    rev = reversal_members()
    sym = [lattice.mk("cdn", True), lattice.mk("cdn", False)]
    members = [m for a, b, _ in pairs for m in (a, b)] + [m for d in rev.values() for m in d.values()] + sym
    from vlib import corpus

    arts = corpus.ensure(members, log=ctx.log)
    amap = {}
    for m, a in zip(members, arts):
        amap[id(m)] = a
    stats = dict(mirror_pairs=0, reversal_pairs=0, reversal_fields=0, reversal_pairs_refused_after_rescaling=0)
    # --- mirror pairs
    pos_err = {}
    xp_shift = {}
    for a_c, b_c, label in pairs:
        a, b = amap[id(a_c)], amap[id(b_c)]
        if a.ok != b.ok:
            ctx.violation("mirror | one of a mirror pair is refused, the other generates",
                          dict(pair=label, a=a.outcome, b=b.outcome, error=(a.meta.get("exc_msg") or b.meta.get("exc_msg"))),
                          replay=dict(kind="mirror", label=label))
            continue
        if not a.ok:
            continue
        stats["mirror_pairs"] += 1
        res = compare_mirror(ctx, a, b, label)
        if res is None:
            continue
        wp, wr, xshift = res
        nf = float(a.side["mesh"]["user_options"]["finecontour_Nfine"])
        pos_err[label] = wp
        xp_shift[label] = xshift
        dct = a.side["mesh"]["user_options"].get("psi_interpolation_method") == "dct"
        # the chord discretisation of a fine contour is not mirror symmetric (it starts from the
        # other end): equivariance holds to O(1/Nfine^2); calibrated 3e-4 m at Nfine=50
        # ... plus the X-point location floor: find_critical stops at |grad psi|^2/R^2 <
        # xpoint_refine_atol, i.e. the X-point (from which every leg is traced) is located to
        # ~1e-4 m only, and the Newton iteration of the mirrored array starts from another
        # node; xfloor bounds that from the reference Hessian as in C03
        # measured on the pinned tree: 2e-11 m away from X-point radial lines (the inputs are
        # bit-exact mirrors, so is almost all of the arithmetic), up to 1.2e-4 m on them
        ptol = 2e-8 if not dct else 1e-6
        etol = 10.0 * xfloor(a)
        ctx.setmax("worst_mirror_position_residual_over_tol", wp / ptol)
        ctx.setmax("worst_mirror_xpoint_line_residual_over_tol", xshift / etol)
        if xshift > etol:
            ctx.violation("mirror | points on the radial line through an X-point differ between mirror images",
                          dict(pair=label, residual=xshift, tol=etol), replay=dict(kind="mirror", label=label))
        ctx.sample(dict(pair=label, position_residual_m=wp, field_residuals=wr), limit=6)
        if wp > ptol:
            ctx.violation("mirror | grid of the mirrored equilibrium is not the mirror image (positions)",
                          dict(pair=label, residual=wp, tol=ptol), replay=dict(kind="mirror", label=label))
        for v, r in wr.items():
            ftol = 1e-6
            ctx.setmax("worst_mirror_field_residual_over_tol[%s]" % v, r / ftol)
            if r > ftol:
                ctx.violation("mirror | %s of the mirrored grid differs" % v, dict(pair=label, rel=r, tol=ftol),
                              replay=dict(kind="mirror", label=label))
        want = int_map_mirror(a.nc, b.nc, double=len(a.side["eq"]["regions"]) == 6, a=a)
        got = {k: int(b.nc[k]) for k in want}
        if got != want:
            ctx.violation("mirror | topology integers do not map as documented",
                          dict(pair=label, got=got, want=want), replay=dict(kind="mirror", label=label))
    # residual must fall with Nfine (a genuine lower/upper mix-up is O(cell size) and does not)
    for label, e50 in pos_err.items():
        if label.endswith("Nfine=50"):
            l100 = label.replace("Nfine=50", "Nfine=100")
            if l100 in pos_err and pos_err[l100] > 0:
                ratio = e50 / pos_err[l100]
                ctx.set("mirror_residual_ratio[%s]" % label.replace("/Nfine=50", ""), ratio)
                # only meaningful above the X-point location floor
                if ratio < 2.5 and e50 > 1e-6:
                    ctx.violation("mirror | position residual does not shrink with Nfine",
                                  dict(pair=label, e50=e50, e100=pos_err[l100]), replay=dict(kind="mirror", label=label))
    # --- symmetric connected double null: its own mirror map
    for m in sym:
        a = amap[id(m)]
        if not a.ok:
            continue
        stats["mirror_pairs"] += 1
        res = compare_mirror(ctx, a, a, "cdn self-map", selfmap=True)
        if res is None:
            continue
        wp, wr, _ = res
        ptol = 2e-8
        ctx.setmax("worst_cdn_selfmap_position_residual_over_tol", wp / ptol)
        if wp > ptol:
            ctx.violation("mirror | symmetric connected double null does not give a symmetric grid",
                          dict(config=a.config["label"], residual=wp, tol=ptol), replay=dict(kind="mirror", label="cdn"))
    # --- reversal
    arts_by = {mode: {k: amap[id(m)] for k, m in d.items()} for mode, d in rev.items()}
    check_reversal(ctx, arts_by, stats)
    ctx.set("evaluations", len(members))
    ctx.set("distinct_nontrivial", stats["mirror_pairs"] + stats["reversal_pairs"])
    for k, v in stats.items():
        ctx.set(k, v)
    ctx.set("mirror_position_residuals_m", pos_err)
    ctx.set("mirror_xpoint_shift_m", xp_shift)
    ctx.set("rule", "explicit pair members: (configuration, mirror image with lower/upper options exchanged) per "
            "topology x mode x Nfine; symmetric cdn self-map; (base, reversed) per reversal kind x mode; "
            "non-trivial = both members generated and were compared")
    ctx.set("exhaustive", True)
    ctx.assume("inputs of a mirror pair are bit-exact mirrors (symmetric Z grid); position tolerance 2e-8 m "
               "(observed 2e-11), 10x the X-point location bound on radial lines through an X-point")


def replay(ctx, payload):
    run(ctx)
