"""C15 - regridding is history independent.

Engine E2: explicit-state breadth-first search over sequences of
Mesh.redistributePoints(settings) on live non-orthogonal meshes (dill snapshots, real
methods), every reached state compared with a mesh built from scratch with the state's
final non-orthogonal settings.
"""

import os
import pickle

import numpy as np

from vlib import corpus, gridutil as gu, lattice

LEVEL = "model_checking"
LOCS = ("centre", "xlow", "ylow", "corners")


def alphabet(base_non, extended=False):
    xl = float(base_non["nonorthogonal_xpoint_poloidal_spacing_length"])
    xr = base_non["nonorthogonal_xpoint_poloidal_spacing_range"]
    tr = base_non["nonorthogonal_target_all_poloidal_spacing_range"]
    A = {}
    B = dict(nonorthogonal_xpoint_poloidal_spacing_length=0.4 * xl)
    tl = float(base_non["nonorthogonal_target_all_poloidal_spacing_length"])
    C = dict(nonorthogonal_target_all_poloidal_spacing_range=2.0 * float(tr),
             nonorthogonal_xpoint_poloidal_spacing_range=0.5 * float(xr),
             nonorthogonal_target_all_poloidal_spacing_length=0.6 * tl)
    D = dict(nonorthogonal_spacing_method="poloidal_orthogonal_combined")
    # E: B plus keys that are not non-orthogonal settings: must be ignored or refused
    E = dict(B, xpoint_poloidal_spacing_length=0.123, ny_inner_divertor=9, orthogonal=True, y_boundary_guards=3)
    al, names, scratch = [A, B, C, D, E], ["A", "B", "C", "D", "E"], [A, B, C, D, B]
    if extended:
        # F: only the radial blending power changes (no length, range or method does)
        F = dict(nonorthogonal_radial_range_power=1.0)
        # G: an X-point range large enough for the perpendicular-spacing part to carry weight
        # (default: 0.02 x length, weight ~0 on small grids) together with a changed X-point length
        # (x3 and x2: most other combinations are refused by geometry()'s Jacobian consistency
        # check on the minimal grids, from scratch as well as after a history)
        G = dict(nonorthogonal_xpoint_poloidal_spacing_range=3.0 * float(xr),
                 nonorthogonal_xpoint_poloidal_spacing_length=2.0 * xl)
        al, names, scratch = al + [F, G], names + ["F", "G"], scratch + [F, G]
    return al, names, scratch


NONDEFAULT = dict(xpoint_poloidal_spacing_length=3.0, target_all_poloidal_spacing_length=0.8)


def starts(tier):
    """(geometry, wall, extra user options).  One start state has non-default ordinary spacing
    options, from which the defaults of the nonorthogonal_* lengths are derived."""
    if tier == "quick":
        return [("lsn", "W0", {}), ("lsn", "W0", NONDEFAULT), ("cdn", "W0", {})]
    return [("lsn", "W0", {}), ("lsn", "W0", NONDEFAULT), ("usn", "W0", {}), ("cdn", "W0", {}),
            ("udn", "W0", NONDEFAULT), ("ldn", "W0", {}), ("lsn", "W6", {})]


def guard_margin(art):
    """largest |J - 1/sqrt(det g^ij)|/|J| of a generated grid, in units of its geometry_rtol: how
    close the mesh built from scratch is to the library's own Jacobian consistency guard"""
    rtol = float(art.side["mesh"]["user_options"].get("geometry_rtol", 1e-10))
    worst = 0.0
    for reg in art.side["regions"]:
        A = reg["arrays"]
        for loc in ("centre", "ylow", "xlow"):
            try:
                g = {k: A[k][loc] for k in ("g11", "g22", "g33", "g12", "g13", "g23", "J")}
            except KeyError:
                continue
            det = (g["g11"] * g["g22"] * g["g33"] + 2.0 * g["g12"] * g["g13"] * g["g23"] - g["g11"] * g["g23"] ** 2
                   - g["g22"] * g["g13"] ** 2 - g["g33"] * g["g12"] ** 2)
            with np.errstate(invalid="ignore", divide="ignore"):
                rel = np.abs(np.abs(g["J"]) - 1.0 / np.sqrt(det)) / np.abs(g["J"])
            rel = rel[np.isfinite(rel)]
            if rel.size:
                worst = max(worst, float(rel.max()))
    return worst / rtol


def compare_state(ctx, label, hist_names, state, scratch, start_art, stats, first_state):
    """state: history_record dict; scratch: Artefact of the from-scratch mesh"""
    regs_s = {r["myID"]: r for r in scratch.side["regions"]}
    ref = gu.ref_for(start_art)
    opts = start_art.side["mesh"]["user_options"]
    atol = float(opts.get("refine_atol", 2e-8))
    ptol = 5 * atol  # positions: refinement tolerance (|grad psi| ~ 1), observed 1e-9
    worst = 0.0
    for rid, rec in state["regions"].items():
        S = regs_s[rid]
        pinned, _ = gu.pinned_corner_mask(rec)
        for loc in LOCS:
            R, Z = rec["Rxy"][loc], rec["Zxy"][loc]
            Rs, Zs = S["arrays"]["Rxy"][loc], S["arrays"]["Zxy"][loc]
            d = np.hypot(R - Rs, Z - Zs)
            dom = gu.in_domain(start_art, R, Z)
            stats["points"] += int(dom.sum())
            if dom.any():
                w = float(d[dom].max())
                worst = max(worst, w)
                if w > ptol:
                    idx = tuple(map(int, np.argwhere(dom & (d > ptol))[0]))
                    ctx.violation("%s | final settings %s | positions after a history differ from the mesh built from scratch | %s" % (label.split("/")[0], hist_names[-1] if hist_names else "start", loc),
                                  dict(start=label, history=hist_names, region=rec["name"], index=list(idx),
                                       distance=w, tol=ptol),
                                  replay=dict(start=label, history=hist_names))
            # C01 in every state
            want = np.broadcast_to(gu.expected_psi(rec, loc), R.shape)
            err = np.abs(ref.psi(R, Z) - want)
            if loc == "corners":
                err = np.where(pinned, 0.0, err)
            if (err[dom] > 5 * atol * np.maximum(1, np.abs(want[dom]))).any():
                ctx.violation("%s | point off its flux surface after redistribution | %s" % (label.split("/")[0], loc),
                              dict(start=label, history=hist_names, region=rec["name"]),
                              replay=dict(start=label, history=hist_names))
            # how far region end points moved relative to the start state (statistic; the
            # clause itself belongs to C10)
            if first_state is not None and loc in ("ylow", "corners"):
                F = first_state["regions"][rid]
                for j in (0, -1):
                    dd = np.hypot(R[:, j] - F["Rxy"][loc][:, j], Z[:, j] - F["Zxy"][loc][:, j])
                    dm = gu.in_domain(start_art, R[:, j], Z[:, j])
                    if dm.any():
                        stats["endpoints_moved_max"] = max(stats["endpoints_moved_max"], float(dd[dm].max()))
        for k, arrs in rec.get("fields", {}).items():
            for loc, v in arrs.items():
                vs = S["arrays"].get(k, {}).get(loc)
                if vs is None:
                    continue
                dom = gu.in_domain(start_art, rec["Rxy"][loc], rec["Zxy"][loc])
                pin = pinned if loc == "corners" else np.zeros(v.shape, bool)
                ok = dom & ~pin & np.isfinite(v) & np.isfinite(vs)
                if not ok.any():
                    continue
                sc = np.abs(vs[ok]).max()
                rel = float((np.abs(v - vs)[ok] / np.maximum(np.abs(vs[ok]), 1e-3 * sc + 1e-300)).max())
                stats["field_arrays"] += 1
                if not (hist_names and hist_names[-1] == "D"):
                    ctx.setmax("worst_field_rel_residual(histories not ending in D)", rel)
                if rel > 1e-4:
                    ctx.violation("%s | final settings %s | derived geometry after a history differs from the mesh built from scratch | %s" % (label.split("/")[0], hist_names[-1] if hist_names else "start", k),
                                  dict(start=label, history=hist_names, region=rec["name"], loc=loc, rel=rel),
                                  replay=dict(start=label, history=hist_names))
    if not (hist_names and hist_names[-1] == "D"):
        ctx.setmax("worst_position_residual_m(histories not ending in D)", worst)


def run(ctx):
    depth = 2 if ctx.tier == "quick" else 3
    stats = dict(points=0, field_arrays=0, endpoints_moved_max=0.0)
    states = transitions = 0
    validated = 0
    st = starts(ctx.tier)
    base_members = [lattice.mk(g, False, wall=w, opt=dict(o) or None) for g, w, o in st]
    base_arts = corpus.ensure(base_members, log=ctx.log)
    plans = []
    members = []
    for (g, w, o), bm, ba in zip(st, base_members, base_arts):
        if not ba.ok:
            ctx.log("start state %s/%s refused: %s" % (g, w, ba.meta.get("exc_msg")))
            continue
        # quick: the two extra letters F, G on the first start state only
        alpha, names, scratch_settings = alphabet(ba.side["eq"]["nonorthogonal_options"],
                                                  extended=(ctx.tier != "quick" or (g, w, o) == st[0]))
        # one process per first transition: explores the subtree below it
        hist_members = []
        for k in range(len(alpha)):
            m = lattice.mk(g, False, wall=w, opt=dict(o) or None, tags=["history"])
            m.update(kind="history", alphabet=alpha, first=[k], depth=depth, watchdog_s=3000,
                     label="%s/%s%s history subtree %s depth %d" % (g, w, "/nondefault" if o else "", names[k], depth))
            hist_members.append(m)
        # the same subtrees with geometry() called on the live mesh in every state (the GUI's
        # write - regrid - write loop): quick on the first start state, thorough on all
        if ctx.tier != "quick" or (g, w, o) == st[0]:
            for k in range(len(alpha)):
                m = lattice.mk(g, False, wall=w, opt=dict(o) or None, tags=["history"])
                m.update(kind="history", alphabet=alpha, first=[k], depth=depth, watchdog_s=3000, geometry_each=True,
                         label="%s/%s%s history subtree %s depth %d, geometry() in every state" % (
                             g, w, "/nondefault" if o else "", names[k], depth))
                hist_members.append(m)
        scratch = [lattice.mk(g, False, wall=w, opt=dict(o) or None, non=s_) if s_ else bm for s_ in scratch_settings]
        plans.append((g, w + ("/nondefault" if o else ""), ba, alpha, names, hist_members, scratch))
        members += hist_members + scratch
    arts = corpus.ensure(members, log=ctx.log, timeout=3000)
    amap = {id(m): a for m, a in zip(members, arts)}
    for g, w, ba, alpha, names, hist_members, scratch in plans:
        label = "%s/%s" % (g, w)
        sc_arts = [amap[id(m)] for m in scratch]
        for k, a in enumerate(sc_arts):
            if not a.ok:
                ctx.log("scratch mesh %s %s refused: %s" % (label, names[k], a.meta.get("exc_msg")))
        root_checked = False
        for hm in hist_members:
            ha = amap[id(hm)]
            if not ha.ok:
                ctx.violation("history exploration process failed", dict(start=label, outcome=ha.outcome,
                              error=ha.meta.get("exc_msg")), replay=dict(start=label, history=[]))
                continue
            with open(os.path.join(ha.path, "history.pkl"), "rb") as f:
                H = pickle.load(f)
            first = H[()]
            for hist, state in sorted(H.items()):
                if hist == ():
                    if root_checked:
                        continue
                    root_checked = True
                if hm.get("geometry_each"):
                    stats["states_with_geometry_in_every_state"] = stats.get("states_with_geometry_in_every_state", 0) + 1
                hn = [names[k] for k in hist]
                states += 1
                transitions += 1 if hist else 0
                final = hist[-1] if hist else 0
                sa = sc_arts[final]
                if "refused" in state:
                    stats.setdefault("refused_transitions", 0)
                    stats["refused_transitions"] += 1
                    # a refusal is allowed only for settings that contain non-nonorthogonal keys
                    if names[final] != "E":
                        ctx.violation("%s | redistributePoints refused valid non-orthogonal settings" % g,
                                      dict(start=label, history=hn, error=state["refused"]),
                                      replay=dict(start=label, history=hn))
                    continue
                if state.get("geometry_error"):
                    # geometry() refused this state explicitly: allowed only if the mesh built from
                    # scratch with the same final settings is refused as well
                    stats["states_refused_by_geometry"] = stats.get("states_refused_by_geometry", 0) + 1
                    if sa.ok:
                        # the guard compares two expressions for J at geometry_rtol = 1e-10; a mesh
                        # whose own residual is within a factor 4 of that threshold can fall on
                        # either side of it when its points move by the refinement tolerance
                        margin = guard_margin(sa)
                        ctx.setmax("worst_scratch_residual_over_geometry_rtol_when_a_history_state_is_refused", margin)
                        if margin > 0.25 and "Jacobian" in state["geometry_error"]:
                            stats["states_refused_at_the_guard_threshold"] = stats.get("states_refused_at_the_guard_threshold", 0) + 1
                        else:
                            ctx.violation("%s | final settings %s | geometry() fails after a history but succeeds on the mesh built from scratch" % (g, names[final]),
                                          dict(start=label, history=hn, error=state["geometry_error"], scratch_margin=margin),
                                          replay=dict(start=label, history=hn))
                if not sa.ok:
                    continue
                # settings other than nonorthogonal_* unaffected
                if state["user_options"] != first["user_options"] or state["eq_user_options"] != first["eq_user_options"]:
                    ctx.violation("%s | redistributePoints changed settings other than the non-orthogonal ones" % g,
                                  dict(start=label, history=hn), replay=dict(start=label, history=hn))
                compare_state(ctx, label + (" [geometry() in every state]" if hm.get("geometry_each") else ""),
                              hn, state, sa, ba, stats, first)
                validated += 1
            ctx.sample(dict(start=label, subtree=hm["label"], histories=len(H)), limit=6)
    ctx.set("states", states)
    ctx.set("transitions", transitions)
    ctx.set("traces_validated_against_impl", validated)
    ctx.set("depth", depth)
    ctx.set("alphabet", ["A default", "B xpoint length x0.4", "C target range x2, xpoint range x0.5, target length x0.6",
                         "D poloidal_orthogonal_combined", "E = B + non-nonorthogonal keys",
                         "F radial_range_power 1 (extended alphabet)", "G xpoint range x3 and length x2 (extended alphabet)"])
    for k, v in stats.items():
        ctx.set(k, v)
    ctx.set("exhaustive", True)
    ctx.assume("every transition calls the real redistributePoints + calculateRZ on a dill snapshot of the live "
               "mesh (caches included); geometry is computed on a copy of each state, and in a second pass on the live mesh in every state (write - regrid - write); reference = mesh built "
               "from scratch with the state's final non-orthogonal settings in a fresh process")


def replay(ctx, payload):
    run(ctx)
