"""C11 - targets sit on the wall; penalty_mask and wall output match the geometry.

E3-grid with exact rational point-in-polygon / segment-polygon routines (ref/exactgeom.py).
"""

from fractions import Fraction as F

import numpy as np

from props.C03 import leg_separatrix_psi  # noqa: F401  (documentation of the mark logic)
from ref import exactgeom as eg
from vlib import gridutil as gu

LEVEL = "exploration"


def nfine_of(a):
    return float(a.side["mesh"]["user_options"].get("finecontour_Nfine", 100))


def xpoint_mark(regs_of_leg):
    r0 = sorted(regs_of_leg, key=lambda r: r["radialIndex"])[0]
    n = len(regs_of_leg)
    marks = [k for k in range(n + 1) if r0["xPointsAtStart"][k] is not None or r0["xPointsAtEnd"][k] is not None]
    return marks[0] if len(marks) == 1 else None


def check_artefact(ctx, a, stats):
    side = a.side
    opts = side["mesh"]["user_options"]
    orth = bool(opts.get("orthogonal", True))
    mode = "orth" if orth else "nonorth"
    myg = int(opts.get("y_boundary_guards", 0))
    wall_in = a.inputs["wall"]
    wall = [eg.fr(p) for p in wall_in]
    if eg.signed_area(wall) < 0:
        wall = wall[::-1]
    nf = nfine_of(a)
    ref = gu.ref_for(a)
    # the wall point is the intersection of the wall with a chord of the fine contour, pulled
    # back onto the flux surface: discretisation limited (worst observed at Nfine=50: 5.5e-6 m)
    wtol0 = 2e-4 * (50.0 / nf) ** 2
    wtol = wtol0

    def V(what, detail):
        detail.update(config=a.config["label"])
        ctx.violation("%s | %s" % (mode, what), detail, replay=dict(config=a.config))

    # ---- wall output -------------------------------------------------------------------
    nc = a.nc
    cw = list(zip(nc["closed_wall_R"].tolist(), nc["closed_wall_Z"].tolist()))
    stats["walls"] += 1
    if cw[0] != cw[-1]:
        V("closed_wall is not closed", dict(first=cw[0], last=cw[-1]))
    body = cw[:-1]
    if eg.signed_area([eg.fr(p) for p in body]) <= 0:
        V("closed_wall is not anticlockwise", {})
    inp = [tuple(map(float, p)) for p in wall_in]
    if a.config.get("via") == "gfile" and a.config.get("family") != "X":
        # the wall went through the ten-significant-digit geqdsk text
        inp = [(float("%.9E" % r), float("%.9E" % z)) for r, z in inp]
    cand = [inp, inp[::-1]]
    ok = False
    for c in cand:
        for s in range(len(c)):
            if c[s:] + c[:s] == body:
                ok = True
    if not ok:
        V("closed_wall vertices differ from the input wall (up to a cyclic shift / orientation)",
          dict(n_in=len(inp), n_out=len(body)))

    by_eq = {}
    for r in side["regions"]:
        by_eq.setdefault(r["eqname"], []).append(r)

    for reg in side["regions"]:
        A = reg["arrays"]
        nx, ny = reg["nx"], reg["ny"]
        R, Z = A["Rxy"], A["Zxy"]
        lower_wall = reg["connections"]["lower"] is None and reg["wallAtStart"]
        upper_wall = reg["connections"]["upper"] is None and reg["wallAtEnd"]
        mark = xpoint_mark(by_eq[reg["eqname"]])
        # ---- target points on the wall ------------------------------------------------------
        for which, jt in (("lower", myg), ("upper", ny - myg)):
            if not (lower_wall if which == "lower" else upper_wall):
                continue
            for loc in ("ylow", "corners"):
                for i in range(R[loc].shape[0]):
                    p = (R[loc][i, jt], Z[loc][i, jt])
                    is_sep = loc == "corners" and mark is not None and (
                        (i == 0 and reg["radialIndex"] == mark) or (i == nx and reg["radialIndex"] == mark - 1))
                    if orth and not is_sep:
                        continue
                    d = eg.dist_point_polyline(p, wall_in)
                    stats["target_points"] += 1
                    # the wall point is the intersection of the wall with a chord of the fine
                    # contour (spacing h = contour length / Nfine), pulled back to the surface:
                    # off the wall by up to the sagitta kappa*h^2/8 of that chord
                    row = np.column_stack([R[loc][i, :], Z[loc][i, :]])
                    Lc = float(np.sum(np.hypot(*np.diff(row, axis=0).T)))
                    gR_, gZ_ = ref.grad(p[0], p[1])
                    hRR_, hZZ_, hRZ_ = ref.hess(p[0], p[1])
                    gm_ = float(np.hypot(gR_, gZ_))
                    tR_, tZ_ = -gZ_ / gm_, gR_ / gm_
                    kap_ = abs(float(hRR_ * tR_ * tR_ + 2 * hRZ_ * tR_ * tZ_ + hZZ_ * tZ_ * tZ_)) / gm_
                    # ... and, when the contour had to be extrapolated to reach the wall (no guard
                    # cells), by the accuracy of that extrapolation: worst observed 8.8e-5 m at
                    # Nfine=50 (0.3 % of the adjacent cell); floor 2e-4*(50/Nfine)^2
                    wtol = max(3.0 * kap_ * (Lc / nf) ** 2 / 8.0 + 2e-6, wtol0)
                    ctx.setmax("worst_target_distance_over_tol", d / wtol)
                    if d > wtol:
                        V("target point is not on the wall | %s%s" % (loc, " (separatrix)" if is_sep else ""),
                          dict(region=reg["name"], target=which, i=i, distance=d, tol=wtol, point=list(p)))
        # ---- cells between targets inside, guard cells beyond outside -------------------------------
        ylR, ylZ = R["ylow"], Z["ylow"]
        inside = np.zeros((nx, ny + 1), int)
        dist = np.zeros((nx, ny + 1))
        for i in range(nx):
            for j in range(ny + 1):
                inside[i, j] = eg.point_in_polygon((ylR[i, j], ylZ[i, j]), wall)
                dist[i, j] = eg.dist_point_polyline((ylR[i, j], ylZ[i, j]), wall_in)
        j_lo = myg if lower_wall else 0
        j_hi = ny - myg if upper_wall else ny
        for i in range(nx):
            for j in range(ny + 1):
                near = dist[i, j] <= (wtol0 if not orth else np.inf if j in (j_lo, j_hi) else 0.0)
                stats["faces"] += 1
                if j_lo < j < j_hi:
                    if inside[i, j] < 0 and not near:
                        V("y-face between the targets lies outside the wall",
                          dict(region=reg["name"], i=i, j=j, distance=float(dist[i, j])))
                elif (j < j_lo and lower_wall) or (j > j_hi and upper_wall):
                    if inside[i, j] > 0 and not near and not orth:
                        V("y-face of a boundary guard cell lies inside the wall",
                          dict(region=reg["name"], i=i, j=j, distance=float(dist[i, j])))
        # ---- penalty mask ----------------------------------------------------------------------------------
        pm = reg["penalty_mask"]
        for i in range(nx):
            for j in range(ny):
                p1 = (ylR[i, j], ylZ[i, j])
                p2 = (ylR[i, j + 1], ylZ[i, j + 1])
                o1, o2 = inside[i, j] < 0, inside[i, j + 1] < 0
                amb = dist[i, j] < 1e-9 or dist[i, j + 1] < 1e-9
                stats["mask_cells"] += 1
                if o1 and o2:
                    want = [1.0]
                elif not o1 and not o2:
                    want = [0.0]
                else:
                    ts = eg.seg_polygon_params(p1, p2, wall)
                    want = []
                    for t in ts:
                        t = float(t)
                        want.append(t if o1 else 1.0 - t)
                    stats["mask_cells_crossing"] += 1
                if amb:
                    want = want + [0.0, 1.0]
                got = float(pm[i, j])
                if not any(abs(got - w) <= 1e-9 for w in want):
                    V("penalty_mask differs from the outside fraction of the cell's poloidal extent",
                      dict(region=reg["name"], i=i, j=j, got=got, expected_one_of=want,
                           face_outside=[bool(o1), bool(o2)]))
    # file-level penalty mask equals the regions' masks
    pmf = nc["penalty_mask"]
    for reg in side["regions"]:
        (x0, x1), (y0, y1) = reg["xslice"], reg["yslice"]
        if not np.array_equal(pmf[x0:x1, y0:y1], reg["penalty_mask"]):
            V("penalty_mask in the file differs from the region's mask", dict(region=reg["name"]))
    return True


# ---- wall descriptions: every starting vertex, both directions, shifted in Z ---------------
def wall_description_cases(tier):
    polys = ["W0", "W2", "W6", "W7"]
    shifts = [0.0, 1.2, -1.3]
    if tier != "quick":
        polys += ["W3"]
        shifts += [0.4]
    return [(w, d) for w in polys for d in shifts]


def wall_description_case(case):
    """eq.wall / eq.closed_wallarray for every cyclic rotation and both directions of one wall
    polygon, on the family's lower single null shifted by d in Z (equilibrium built without
    regions: only the wall handling runs)"""
    import contextlib
    import io
    import warnings

    from hypnotoad.cases import tokamak
    from vlib import families

    wname, d = case
    warnings.simplefilter("ignore")
    c = families.normalise(dict(geom="lsn", wall=wname, affine=[1.0, 0.0, 1.0, d]))
    inp = families.build_inputs(c)
    base = [tuple(map(float, p)) for p in inp["wall"]]
    bad, n = [], 0
    for rev in (False, True):
        w0 = base[::-1] if rev else base
        for k in range(len(w0)):
            w = w0[k:] + w0[:k]
            n += 1
            try:
                with contextlib.redirect_stdout(io.StringIO()):
                    eq = tokamak.TokamakEquilibrium(inp["R1D"].copy(), inp["Z1D"].copy(), inp["psi2D"].copy(),
                                                    inp["psi1D"].copy(), inp["fpol1D"].copy(), wall=list(w),
                                                    make_regions=False, settings={})
            except Exception as e:  # noqa: BLE001
                bad.append(dict(rotation=k, reversed=rev, problem="constructor raised %s: %s" % (type(e).__name__, str(e)[:100])))
                continue
            got = [(float(p.R), float(p.Z)) for p in eq.wall]
            cwa = [tuple(map(float, p)) for p in np.array(eq.closed_wallarray)]
            area2 = eg.signed_area([(F(x), F(y)) for x, y in got])
            prob = None
            if area2 <= 0:
                prob = "wall kept or made clockwise"
            elif sorted(got) != sorted(base):
                prob = "wall vertices differ from the input"
            else:
                i0 = got.index(base[0])
                rotd = got[i0:] + got[:i0]
                ref_acw = base if eg.signed_area([(F(x), F(y)) for x, y in base]) > 0 else [base[0]] + base[:0:-1]
                if rotd != ref_acw:
                    prob = "wall vertices not in the input's cyclic order"
                elif cwa != got + [got[0]]:
                    prob = "closed_wallarray is not the wall plus its first point"
            if prob:
                bad.append(dict(rotation=k, reversed=rev, problem=prob, wall_given=w[:3], wall_stored=got[:3]))
    return dict(case=case, n=n, bad=bad)


def check_wall_descriptions(ctx, stats):
    from concurrent.futures import ProcessPoolExecutor

    cases = wall_description_cases(ctx.tier)
    with ProcessPoolExecutor(min(12, len(cases))) as pool:
        res = list(pool.map(wall_description_case, cases))
    for r in res:
        stats["wall_descriptions"] = stats.get("wall_descriptions", 0) + r["n"]
        for b in r["bad"][:3]:
            ctx.violation("wall description | %s" % b["problem"], dict(wall=r["case"][0], z_shift=r["case"][1], **b),
                          replay=dict(kind="walldesc", case=list(r["case"])))


def run(ctx, arts=None):
    if arts is None:
        arts = gu.select(ctx.tier, log=ctx.log)
        check_wall_descriptions(ctx, ctx.cov.setdefault("_wd", {}))
        ctx.set("wall_descriptions", ctx.cov.pop("_wd").get("wall_descriptions", 0))
    arts = gu.rotate(arts, ctx.seed)
    stats = dict(walls=0, target_points=0, faces=0, mask_cells=0, mask_cells_crossing=0)
    n = refused = 0
    classes = set()
    for a in arts:
        if not a.ok:
            refused += 1
            continue
        check_artefact(ctx, a, stats)
        n += 1
        classes.add((a.config["wall"], a.config["geom"], a.side["mesh"]["user_options"].get("y_boundary_guards"),
                     a.side["mesh"]["user_options"].get("orthogonal")))
        ctx.sample(dict(config=a.config["label"]), limit=5)
    ctx.set("evaluations", len(arts))
    ctx.set("distinct_nontrivial", n)
    ctx.set("distinct_(wall,topology,guards,mode)_classes", len(classes))
    ctx.set("refused_configurations", refused)
    for k, v in stats.items():
        ctx.set(k, v)
    ctx.set("rule", "corpus lattice (walls W0 clockwise input, W1 anticlockwise, W2/W3/W6 slanted, guards 0..3); "
            "non-trivial = generated; every y-face and every cell is one exact-arithmetic judgement")
    ctx.set("exhaustive", True)
    ctx.assume("inside/outside and crossing fractions by exact rational arithmetic on the file's own face "
               "coordinates; 'on the wall' tolerance 2e-5*(50/Nfine)^2 m (chord of the fine contour)")


def replay(ctx, payload):
    from vlib import corpus

    if payload["replay"].get("kind") == "walldesc":
        check_wall_descriptions(ctx, {})
        return

    arts = corpus.ensure([payload["replay"]["config"]], log=ctx.log)
    run(ctx, arts)
