"""C03 - field and profile values at grid points agree with the equilibrium.

E3-grid: every point of every corpus grid; reference = checker's own interpolant of the
input psi array and own splines of the input profiles.  E3-pure: continuity of the
extrapolated pressure across the last profile point.
"""

import contextlib
import io
import warnings

import numpy as np
from scipy.interpolate import InterpolatedUnivariateSpline

from ref import interp
from vlib import families, gridutil as gu

LEVEL = "exploration"
_ROUND = np.vectorize(lambda v: float("%.9E" % v))


def profile_refs(a):
    """(f_hat(psi), p_hat(psi), psi_lo, psi_hi) from the arrays hypnotoad received, after its
    own sign/scale options; splines built on increasing abscissae by the checker."""
    c = a.config
    inp = a.inputs
    opts = a.side["eq"]["user_options"]
    if c.get("family") == "X":
        # TORPEX: fpol = Bt_axis * Rcentre (Rcentre = 1 m), constant; no pressure
        xs = np.array([-1.0, -0.5, 0.5, 1.0])
        return InterpolatedUnivariateSpline(xs, np.full(4, float(inp["Bt_axis"])), ext=3), None, -1.0, 1.0
    k = interp.psi_transform(opts)
    if c["via"] == "gfile":
        n = len(inp["R1D"])
        s = np.linspace(0.0, 1.0, n)
        ax, bd = float("%.9E" % inp["o_point"]["psi"]), float("%.9E" % inp["x_points"][0]["psi"])
        psi1D = np.linspace(ax, bd, n)
        ff, pf = families.fpol_function(c["fpol"]), families.pressure_function(c["pressure"])
        fpol = _ROUND(ff(s)) if ff is not None else np.zeros(n)
        pres = _ROUND(pf(s)) if pf is not None else np.zeros(n)
    else:
        psi1D, fpol, pres = inp["psi1D"], inp["fpol1D"], inp["pressure"]
    psi1D = psi1D * k
    fsign = -1.0 if opts.get("reverse_Bt") else 1.0
    lo0, hi0 = float(min(psi1D[0], psi1D[-1])), float(max(psi1D[0], psi1D[-1]))
    if opts.get("extrapolate_profiles") and opts.get("psi_sol") is not None:
        # the documented continuation (option text: exponential decay of the pressure based on
        # value and gradient at the edge; fpol constant), on 49 further points up to the
        # outermost psi of the grid; the splines are built through the continued profile, so
        # the last few intervals inside the profile are those of the continued profile too
        inc = psi1D[-1] > psi1D[0]
        outer = (max if inc else min)(float(opts["psi_sol"]), float(opts.get("psi_sol_inner") or opts["psi_sol"]))
        if (outer - psi1D[-1]) * (1 if inc else -1) > 0:
            ext = np.linspace(psi1D[-1], outer, 50)[1:]
            if pres is not None and len(pres):
                p0 = pres[-1]
                dp = (pres[-1] - pres[-2]) / (psi1D[-1] - psi1D[-2])
                pres = np.concatenate([pres, p0 * np.exp((ext - psi1D[-1]) * dp / p0)])
            if len(fpol):
                fpol = np.concatenate([fpol, np.full(ext.shape, fpol[-1])])
            psi1D = np.concatenate([psi1D, ext])
    order = np.argsort(psi1D)
    x = psi1D[order]

    def spl(y):
        if y is None or len(y) == 0:
            return None
        return InterpolatedUnivariateSpline(x, np.asarray(y)[order], ext=3)

    fh = spl(fpol * fsign if len(fpol) else None)
    ph = spl(pres)
    # (psi_lo, psi_hi): the range of the profile as given (pressure beyond it is only bounded)
    return fh, ph, lo0, hi0


def leg_separatrix_psi(reg_by_eq, eqname, ref=None):
    """psi of the separatrix a leg is attached to: the value shared by its radial
    segments 0 and 1 (read from the region's own radial grid)"""
    segs = sorted(reg_by_eq[eqname], key=lambda r: r["radialIndex"])
    r0 = segs[0]
    marks = [k for k in range(len(segs) + 1)
             if r0["xPointsAtStart"][k] is not None or r0["xPointsAtEnd"][k] is not None]
    if len(marks) != 1:
        raise ValueError("leg %s: expected exactly one X-point mark, got %r" % (eqname, marks))
    k = marks[0]
    if ref is not None:
        # psi at the leg's own X-point (equals the shared radial-grid value except in a double
        # null gridded as connected, whose secondary X-point lies on a slightly different
        # flux surface than the grid line it is pinned to)
        xp = r0["xPointsAtStart"][k] or r0["xPointsAtEnd"][k]
        return float(ref.psi(xp[0], xp[1]))
    return float(segs[k]["psi_vals"][0]) if k < len(segs) else float(segs[-1]["psi_vals"][-1])


def check_artefact(ctx, a, stats):
    side = a.side
    ref = gu.ref_for(a)
    opts = side["mesh"]["user_options"]
    mode = "orth" if opts.get("orthogonal", True) else "nonorth"
    dct = opts.get("psi_interpolation_method", "spline") == "dct"
    scale = gu.psi_scale(a)
    fh, ph, plo, phi = profile_refs(a)
    regs = side["regions"]
    by_eq = {}
    for r in regs:
        by_eq.setdefault(r["eqname"], []).append(r)
    eq = side["eq"]
    sign_out = np.sign(eq["psi_sep"][0] - eq["psi_axis"]) if ("psi_sep" in eq and "psi_axis" in eq) else 1.0
    is_x = a.config.get("family") == "X"
    extrap = bool(side["eq"]["user_options"].get("extrapolate_profiles"))
    signs = set()
    if opts.get("cap_Bp_ylow_xpoint"):
        return

    def viol(what, reg, loc, err, tol, **extra):
        err = np.asarray(err, dtype=float)
        tol = np.broadcast_to(np.asarray(tol, dtype=float), err.shape)
        bad = ~(err <= tol)
        with np.errstate(divide="ignore", invalid="ignore"):
            rt = np.where(tol > 0, err / tol, 0)
        ctx.setmax("worst_over_tol[%s]" % what, float(np.nanmax(rt)) if rt.size else 0.0)
        if bad.any():
            idx = tuple(map(int, np.argwhere(bad)[0]))
            d = dict(config=a.config["label"], region=reg["name"], loc=loc, index=list(idx),
                     residual=float(err[idx]), tol=float(tol[idx]), n_bad=int(bad.sum()))
            for k_, v in extra.items():
                d[k_] = float(v[idx]) if hasattr(v, "shape") and v.shape == err.shape else v
            ctx.violation("%s | %s | %s" % (mode, what, loc), d, replay=dict(config=a.config))

    for reg in regs:
        A = reg["arrays"]
        is_leg = "wall" in reg["kind"]
        for loc in gu.LOCS:
            if loc not in A["Brxy"]:
                continue
            R, Z = A["Rxy"][loc], A["Zxy"][loc]
            dom = gu.in_domain(a, R, Z)
            pin = np.zeros(R.shape, bool)
            if loc == "corners":
                pin, _ = gu.pinned_corner_mask(reg)
            ok = dom & ~pin
            stats["points"] += int(ok.sum())
            gR, gZ = ref.grad(R, Z)
            bsc = scale / 0.3
            viol("Brxy=dpsi/dZ/R", reg, loc, np.where(ok, np.abs(A["Brxy"][loc] - gZ / R), 0), 1e-10 * bsc)
            viol("Bzxy=-dpsi/dR/R", reg, loc, np.where(ok, np.abs(A["Bzxy"][loc] + gR / R), 0), 1e-10 * bsc)
            Bp = A["Bpxy"][loc]
            viol("|Bpxy|=hypot(Brxy,Bzxy)", reg, loc,
                 np.abs(np.abs(Bp) - np.hypot(A["Brxy"][loc], A["Bzxy"][loc])), 1e-13 * bsc)
            psi_here = ref.psi(R, Z)
            if fh is not None:
                want = fh(psi_here) / R
                ftol = 1e-9 * np.maximum(1.0, np.abs(want))
                if extrap:
                    # (reference = spline through the continued profile, see profile_refs)
                    hprof = (phi - plo) / max(1, a.config.get("nprof", 65) - 1)
                    edge_psi = phi if sign_out > 0 else plo
                    near = np.abs(psi_here - edge_psi) < 8 * hprof
                    beyond = (psi_here - edge_psi) * sign_out > 0
                    ftol = np.where(near | beyond, 1e-8 * np.maximum(1.0, np.abs(want)), ftol)
                viol("Btxy=fpol(psi)/R", reg, loc, np.where(ok, np.abs(A["Btxy"][loc] - want), 0), ftol)
            else:
                viol("Btxy=0 without fpol", reg, loc, np.abs(A["Btxy"][loc]), 0.0)
            viol("Bxy=hypot(Bpxy,Btxy)", reg, loc,
                 np.abs(A["Bxy"][loc] - np.hypot(Bp, A["Btxy"][loc])), 1e-13 * np.maximum(1, np.abs(A["Bxy"][loc])))
            signs.update(np.sign(Bp[ok]).tolist())
            if ph is not None and "pressure" in A and loc in A["pressure"]:
                psi_eval = psi_here
                if is_leg:
                    lp = leg_separatrix_psi(by_eq, reg["eqname"], ref)
                    psi_eval = lp + sign_out * np.abs(psi_here - lp)
                inside = (psi_eval >= plo) & (psi_eval <= phi) & ok
                stats["pressure_points"] += int(inside.sum())
                if is_leg and reg["radialIndex"] == 0:
                    stats["pressure_pfr_points_inside_profile"] += int(inside.sum())
                want = ph(psi_eval)
                # derivative of the profile times the psi uncertainty of a grid point
                ptol_ = 1e-6 * np.maximum(1.0, np.abs(want))
                if extrap:
                    hprof = (phi - plo) / max(1, a.config.get("nprof", 65) - 1)
                    edge_psi = phi if sign_out > 0 else plo
                    ptol_ = np.where(np.abs(psi_eval - edge_psi) < 8 * hprof, 1e-5 * np.maximum(1.0, np.abs(want)), ptol_)
                    # beyond the profile: continued from the edge value, decaying, never negative
                    p_edge = float(ph(edge_psi))
                    outside = ok & ~inside
                    got_p = A["pressure"][loc]
                    stats["pressure_points_extrapolated"] = stats.get("pressure_points_extrapolated", 0) + int(outside.sum())
                    viol("extrapolated pressure lies between 0 and the edge value", reg, loc,
                         np.where(outside, np.maximum(-got_p, got_p - abs(p_edge)), 0), 1e-6 * max(1.0, abs(p_edge)))
                viol("pressure=p(psi)%s" % (" reflected about the leg's separatrix" if is_leg else ""),
                     reg, loc, np.where(inside, np.abs(A["pressure"][loc] - want), 0),
                     ptol_, got=A["pressure"][loc], want=want)
        # direction of Bp along increasing y: one sign, equal to sign(Bpxy), on every cell
        Rm, Zm = A["Rxy"], A["Zxy"]
        dyR = Rm["ylow"][:, 1:] - Rm["ylow"][:, :-1]
        dyZ = Zm["ylow"][:, 1:] - Zm["ylow"][:, :-1]
        gR, gZ = ref.grad(Rm["centre"], Zm["centre"])
        dot = (gZ / Rm["centre"]) * dyR + (-gR / Rm["centre"]) * dyZ
        dom = gu.in_domain(a, Rm["centre"], Zm["centre"])
        mism = dom & (np.sign(dot) != np.sign(A["Bpxy"]["centre"]))
        stats["cells_sign"] += int(dom.sum())
        if mism.any():
            idx = tuple(map(int, np.argwhere(mism)[0]))
            ctx.violation("%s | sign(Bpxy) differs from sign(Bp . increasing y) | centre" % mode,
                          dict(config=a.config["label"], region=reg["name"], index=list(idx),
                               Bpxy=float(A["Bpxy"]["centre"][idx]), Bp_dot_dy=float(dot[idx])),
                          replay=dict(config=a.config))
    if len(signs - {0.0}) > 1:
        ctx.violation("%s | Bpxy has both signs in one grid" % mode, dict(config=a.config["label"]),
                      replay=dict(config=a.config))
    # scalars
    if is_x:
        return  # no O-point: psi_axis / psi_bdry / Bt_axis (a given number) do not apply
    nc = a.nc
    o, xs = a.inputs["o_point"], a.inputs["x_points"]
    Ro, Zo = interp.newton_critical(ref, o["R"], o["Z"])
    Rx, Zx = interp.newton_critical(ref, xs[0]["R"], xs[0]["Z"])
    # find_critical stops when |grad psi|^2/R^2 < xpoint_refine_atol, which bounds the
    # position error by R*sqrt(atol)/lambda_min and the psi error by R^2*atol/(2*lambda_min)
    # (lambda_min: smallest Hessian eigenvalue magnitude at the critical point)
    xatol = float(side["eq"]["user_options"].get("xpoint_refine_atol", 1e-6))

    def crit_tols(Rc, Zc):
        hRR, hZZ, hRZ = ref.hess(Rc, Zc)
        lam = np.abs(np.linalg.eigvalsh(np.array([[float(hRR), float(hRZ)], [float(hRZ), float(hZZ)]])))
        lmin = float(lam.min())
        return 2 * Rc**2 * xatol / (2 * lmin) + 1e-12 * scale, 2 * Rc * np.sqrt(xatol) / lmin

    for name, want, (stol, _) in (("psi_axis", float(ref.psi(Ro, Zo)), crit_tols(Ro, Zo)),
                                  ("psi_bdry", float(ref.psi(Rx, Zx)), crit_tols(Rx, Zx))):
        if dct:
            stol = max(stol, 3e-4 * scale)
        got = float(nc[name])
        stats["scalars"] += 1
        ctx.setmax("worst_over_tol[%s]" % name, abs(got - want) / stol)
        if abs(got - want) > stol:
            ctx.violation("%s | %s differs from psi at the critical point" % ("dct" if dct else "spline", name),
                          dict(config=a.config["label"], got=got, want=want, tol=stol), replay=dict(config=a.config))
    if fh is not None:
        want = float(fh(float(ref.psi(Ro, Zo)))) / Ro
        got = float(nc["Bt_axis"])
        stats["scalars"] += 1
        ptol, rtol_pos = crit_tols(Ro, Zo)
        dfdpsi = abs(float(fh.derivative()(float(ref.psi(Ro, Zo)))))
        btol = dfdpsi * ptol / Ro + abs(want) / Ro * rtol_pos + 1e-12
        if dct:
            btol = max(btol, 1e-5 * max(1.0, abs(want)))
        ctx.setmax("worst_over_tol[Bt_axis]", abs(got - want) / btol)
        if abs(got - want) > btol:
            ctx.violation("Bt_axis differs from fpol(psi_axis)/R_axis",
                          dict(config=a.config["label"], got=got, want=want), replay=dict(config=a.config))


# ---- E3-pure: extrapolated pressure is continuous at the last profile point -----------
def extrapolation_cases(tier):
    cases = []
    geoms = ("lsn", "cdn") if tier == "quick" else ("lsn", "usn", "cdn", "udn", "ldn")
    for geom in geoms:
        for sigma in (1.0, -1.0):
            for pscale in (1.0, 25.0):
                for solfrac in (1.1, 1.25):
                    cases.append(dict(geom=geom, sigma=sigma, pscale=pscale, solfrac=solfrac))
    return cases


def run_extrapolation_case(case):
    from hypnotoad.cases import tokamak

    c = families.normalise(dict(geom=case["geom"], sigma=case["sigma"]))
    inp = families.build_inputs(c)
    ax, sep = inp["o_point"]["psi"], inp["x_points"][0]["psi"]
    psi_sol = ax + case["solfrac"] * (sep - ax)
    pres = inp["pressure"] * case["pscale"]
    with contextlib.redirect_stdout(io.StringIO()), warnings.catch_warnings():
        warnings.simplefilter("ignore")
        try:
            eq = tokamak.TokamakEquilibrium(
                inp["R1D"].copy(), inp["Z1D"].copy(), inp["psi2D"].copy(), inp["psi1D"].copy(),
                inp["fpol1D"].copy(), pressure=pres.copy(), wall=inp["wall"], make_regions=False,
                settings=dict(extrapolate_profiles=True, psi_sol=float(psi_sol), psi_sol_inner=float(psi_sol)))
        except Exception as e:  # noqa: BLE001 - an explicit refusal is allowed
            return dict(refused=type(e).__name__ + ": " + str(e)[:100])
    p_edge = float(pres[-1])
    dpsi = (sep - ax)
    out = []
    for eps in (1e-3, 1e-5, 1e-7):
        inside = float(eq.pressure(sep - eps * dpsi))
        outside = float(eq.pressure(sep + eps * dpsi))
        out.append((eps, inside, outside))
    far = float(eq.pressure(psi_sol))
    fj = [(eps, float(eq.fpol(sep - eps * dpsi)), float(eq.fpol(sep + eps * dpsi))) for eps in (1e-3, 1e-5, 1e-7)]
    return dict(p_edge=p_edge, jumps=out, far=far, f_edge=float(inp["fpol1D"][-1]), f_jumps=fj,
                f_far=[float(eq.fpol(sep + t * (psi_sol - sep))) for t in (0.25, 0.5, 1.0)])


def check_extrapolation(ctx, stats):
    for case in extrapolation_cases(ctx.tier):
        res = run_extrapolation_case(case)
        stats["extrap_cases"] += 1
        if "refused" in res:
            stats["extrap_refused"] += 1
            continue
        p0 = res["p_edge"]
        # continuity: the jump across the joint must vanish with eps (first-order in eps);
        # allow the profile's own slope: |dp| <= 50*eps*p0 + 1e-9*p0
        for eps, pin, pout in res["jumps"]:
            tol = (200 * eps + 1e-8) * abs(p0)
            if abs(pout - pin) > tol:
                ctx.violation("extrapolate_profiles | pressure discontinuous at the last profile point",
                              dict(case=case, eps=eps, inside=pin, outside=pout, p_edge=p0, tol=tol),
                              replay=dict(kind="extrap", case=case))
                break
        f0 = res["f_edge"]
        for eps, fin, fout in res["f_jumps"]:
            if abs(fout - fin) > (200 * eps + 1e-8) * abs(f0):
                ctx.violation("extrapolate_profiles | fpol discontinuous at the last profile point",
                              dict(case=case, eps=eps, inside=fin, outside=fout, f_edge=f0),
                              replay=dict(kind="extrap", case=case))
                break
        if max(abs(f - f0) for f in res["f_far"]) > 1e-3 * abs(f0):
            ctx.violation("extrapolate_profiles | fpol beyond the profile is not the edge value",
                          dict(case=case, f_far=res["f_far"], f_edge=f0), replay=dict(kind="extrap", case=case))
        if not (0 <= res["far"] <= abs(p0) * (1 + 1e-9)):
            ctx.violation("extrapolate_profiles | extrapolated pressure does not decay from the edge value",
                          dict(case=case, far=res["far"], p_edge=p0), replay=dict(kind="extrap", case=case))


def run(ctx, arts=None, pure=True):
    if arts is None:
        arts = gu.select(ctx.tier, log=ctx.log)
    arts = gu.rotate(arts, ctx.seed)
    stats = dict(points=0, pressure_points=0, pressure_pfr_points_inside_profile=0, cells_sign=0,
                 scalars=0, extrap_cases=0, extrap_refused=0)
    nontrivial = refused = 0
    for a in arts:
        if not a.ok:
            refused += 1
            continue
        check_artefact(ctx, a, stats)
        if a.config["fpol"] != "none":
            nontrivial += 1
        ctx.sample(dict(config=a.config["label"]), limit=5)
    if pure:
        check_extrapolation(ctx, stats)
    ctx.set("evaluations", len(arts) + stats["extrap_cases"])
    ctx.set("distinct_nontrivial", nontrivial)
    ctx.set("refused_configurations", refused)
    for k, v in stats.items():
        ctx.set(k, v)
    ctx.set("rule", "corpus lattice; non-trivial = generated with a non-constant fpol profile; "
            "pressure_pfr_points_inside_profile counts private-flux points whose reflected psi lies "
            "inside the profile grid (only there is the reflection clause not vacuous)")
    ctx.set("exhaustive", True)
    ctx.assume("profiles: checker's own InterpolatedUnivariateSpline of the input arrays on increasing "
               "psi, clamped outside the profile grid (geqdsk semantics)")


def replay(ctx, payload):
    rp = payload["replay"]
    if rp.get("kind") == "extrap":
        print(run_extrapolation_case(rp["case"]))
        stats = dict(extrap_cases=0, extrap_refused=0)
        check_extrapolation(ctx, stats)
        return
    from vlib import corpus

    arts = corpus.ensure([rp["config"]], log=ctx.log)
    run(ctx, arts, pure=False)
