"""C07 - curvature outputs are the contravariant components of curl(b/B).

E3-grid.  The checker evaluates curl(b/B) itself from its own psi interpolant (analytic
second derivatives) and its own fpol spline, and contracts with basis vectors built
without copying any sign convention from the code: grad x = grad psi; grad y = the dual
basis vector (perpendicular to the radial grid direction, towards increasing y, magnitude
1/(hy |cos beta|)); grad z = grad zeta - dphidy * grad y.
"""

import numpy as np

from props.C02 import chords, xchord_start
from props.C03 import profile_refs
from vlib import gridutil as gu, lattice

LEVEL = "exploration"
XY = "curl(b/B) with x-y derivatives"


def curl_b_over_B(ref, fh, R, Z):
    """(curl_R, curl_Z, curl_zeta) of b/B = B/B^2 in cylindrical components, analytic in
    the interpolant's derivatives.  fh: fpol spline (or None)."""
    pR, pZ = ref.grad(R, Z)
    pRR, pZZ, pRZ = ref.hess(R, Z)
    psi = ref.psi(R, Z)
    if fh is not None:
        f = fh(psi)
        fp = fh.derivative()(psi)
        # the spline is clamped (constant) outside the profile grid
        x0, x1 = fh.get_knots()[0], fh.get_knots()[-1]
        fp = np.where((psi < x0) | (psi > x1), 0.0, fp)
    else:
        f = np.zeros_like(psi)
        fp = np.zeros_like(psi)
    BR, BZ, Bt = pZ / R, -pR / R, f / R
    BR_R, BR_Z = pRZ / R - pZ / R**2, pZZ / R
    BZ_R, BZ_Z = -pRR / R + pR / R**2, -pRZ / R
    Bt_R, Bt_Z = fp * pR / R - f / R**2, fp * pZ / R
    B2 = BR**2 + BZ**2 + Bt**2
    B2_R = 2 * (BR * BR_R + BZ * BZ_R + Bt * Bt_R)
    B2_Z = 2 * (BR * BR_Z + BZ * BZ_Z + Bt * Bt_Z)

    def dA(Bc, Bc_q, B2_q):
        return Bc_q / B2 - Bc * B2_q / B2**2

    At = Bt / B2
    cR = -dA(Bt, Bt_Z, B2_Z)
    cZ = At / R + dA(Bt, Bt_R, B2_R)
    cT = dA(BR, BR_Z, B2_Z) - dA(BZ, BZ_R, B2_R)
    return cR, cZ, cT


def fd_crosscheck(ref, fh, R, Z, h=1e-3):
    """central differences of the checker's own b/B components (coarse: the spline's third
    derivative jumps at knots) - guards the analytic formula against algebra slips"""
    def A(R, Z):
        pR, pZ = ref.grad(R, Z)
        f = fh(ref.psi(R, Z)) if fh is not None else 0.0
        BR, BZ, Bt = pZ / R, -pR / R, f / R
        B2 = BR**2 + BZ**2 + Bt**2
        return BR / B2, BZ / B2, Bt / B2

    def d(comp, axis):
        if axis == 0:
            return (A(R + h, Z)[comp] - A(R - h, Z)[comp]) / (2 * h)
        return (A(R, Z + h)[comp] - A(R, Z - h)[comp]) / (2 * h)

    cR = -d(2, 1)
    cZ = A(R, Z)[2] / R + d(2, 0)
    cT = d(0, 1) - d(1, 0)
    return cR, cZ, cT


def check_artefact(ctx, a, stats):
    side = a.side
    opts = side["mesh"]["user_options"]
    if opts.get("curvature_smoothing") is not None:
        return False
    orth = bool(opts.get("orthogonal", True))
    ctype = opts.get("curvature_type", "curl(b/B)")
    mode = ("orth" if orth else "nonorth")
    ref = gu.ref_for(a)
    fh = profile_refs(a)[0] if a.config["fpol"] != "none" else None
    regs = {r["myID"]: r for r in side["regions"]}
    incr = side["regions"][0]["psi_vals"][-1] > side["regions"][0]["psi_vals"][0]
    mode_s = mode + (" & psi_increasing" if incr else " & psi_decreasing")
    did_fd = False
    if side["eq"]["user_options"].get("extrapolate_profiles"):
        # the continued profile has 49 closely spaced knots beyond the joint: the coarse finite
        # differences of the self-test straddle several of them (the formula itself is
        # self-tested on every other member)
        did_fd = True
    pscale = gu.psi_scale(a)

    def viol(what, reg, loc, err, tol, valid, **extra):
        err = np.asarray(err, float)
        tol = np.broadcast_to(np.asarray(tol, float), err.shape)
        bad = valid & ~(err <= tol)
        with np.errstate(divide="ignore", invalid="ignore"):
            rt = np.where(valid & (tol > 0), err / tol, 0.0)
        ctx.setmax("worst_over_tol[%s]" % what, float(np.nanmax(rt)) if rt.size else 0.0)
        if bad.any():
            idx = tuple(map(int, np.argwhere(bad)[0]))
            d = dict(config=a.config["label"], region=reg["name"], loc=loc, index=list(idx),
                     residual=float(err[idx]), tol=float(tol[idx]), n_bad=int(bad.sum()))
            for k_, v in extra.items():
                d[k_] = float(v[idx]) if hasattr(v, "shape") and v.shape == err.shape else v
            ctx.violation("%s | %s | %s" % (mode_s, what, loc), d, replay=dict(config=a.config))

    for reg in side["regions"]:
        A = reg["arrays"]
        neigh = {k: (regs[v] if v is not None else None) for k, v in reg["connections"].items()}
        for loc in ("centre", "xlow", "ylow"):
            if loc not in A["curl_bOverB_x"]:
                continue
            if opts.get("cap_Bp_ylow_xpoint") and loc == "ylow":
                continue  # Bp is deliberately replaced at y-faces next to an X-point
            R, Z = A["Rxy"][loc], A["Zxy"][loc]
            dxR, dxZ, dyR, dyZ, valid = chords(reg, loc, neigh)
            sR0, sZ0 = xchord_start(reg, loc, neigh)
            dom = gu.in_domain(a, R, Z)
            psi_here = ref.psi(R, Z)
            if fh is not None:
                # fpol' jumps where the profile grid ends (the spline is clamped outside it):
                # curl(b/B) is not defined on that surface - usually the separatrix itself
                k0, k1 = fh.get_knots()[0], fh.get_knots()[-1]
                kink = np.minimum(np.abs(psi_here - k0), np.abs(psi_here - k1))
                stats["points_on_profile_edge_excluded"] += int((dom & (kink < 1e-6 * pscale)).sum())
                dom = dom & (kink >= 1e-6 * pscale)
            cR, cZ, cT = curl_b_over_B(ref, fh, R, Z)
            if not did_fd:
                fR, fZ, fT = fd_crosscheck(ref, fh, R, Z)
                sc = np.max(np.abs([cR, cZ, cT]))
                far = dom & ((kink > 1e-2 * pscale) if fh is not None else True)
                e = max(np.max(np.abs(cR - fR)[far], initial=0), np.max(np.abs(cZ - fZ)[far], initial=0),
                        np.max(np.abs(cT - fT)[far], initial=0)) / sc
                ctx.setmax("analytic_vs_finite_difference_curl_rel", float(e))
                if e > 2e-3:
                    raise RuntimeError("checker's analytic curl disagrees with its own finite differences: %g" % e)
                did_fd = True
            gR, gZ = ref.grad(R, Z)
            gm = np.hypot(gR, gZ)
            hy, Bxy, dphidy = A["hy"][loc], A["Bxy"][loc], A["dphidy"][loc]
            scale_vec = np.sqrt(cR**2 + cZ**2)
            stats["points"] += int(dom.sum())
            if ctype == XY:
                # finite-difference formulation: judged against the R-Z one in check_pairs
                continue
            # --- x component
            want_x = cR * gR + cZ * gZ
            viol("curl_bOverB_x=curl.grad(psi)", reg, loc, np.abs(A["curl_bOverB_x"][loc] - want_x),
                 1e-8 * (np.abs(want_x) + scale_vec * gm), dom)
            if loc not in A["curl_bOverB_y"] or loc not in A["curl_bOverB_z"]:
                ctx.violation("%s | curl_bOverB_y/z not computed at %s (written as zeros)" % (mode, loc),
                              dict(config=a.config["label"], region=reg["name"]), replay=dict(config=a.config))
                continue
            # --- y component: dual basis vector
            tR, tZ = -gZ / gm, gR / gm
            with np.errstate(invalid="ignore", divide="ignore"):
                orient = np.sign(tR * dyR + tZ * dyZ)
                if orth:
                    gyR, gyZ = orient * tR / hy, orient * tZ / hy
                    vy = dom & np.isfinite(orient) & (orient != 0)
                else:
                    ex = np.hypot(dxR, dxZ)
                    exR, exZ = dxR / ex, dxZ / ex
                    # unit vector perpendicular to e_x, towards increasing y
                    nR, nZ = -exZ, exR
                    s = np.sign(nR * dyR + nZ * dyZ)
                    nR, nZ = s * nR, s * nZ
                    cosb = np.abs(exR * gR + exZ * gZ) / gm
                    gyR, gyZ = nR / (hy * cosb), nZ / (hy * cosb)
                    vy = dom & valid & np.isfinite(gyR) & gu.in_domain(a, sR0, sZ0) & gu.in_domain(a, sR0 + dxR, sZ0 + dxZ)
                want_y = cR * gyR + cZ * gyZ
                got_y = A["curl_bOverB_y"][loc]
                tol_y = 1e-7 * (np.abs(want_y) + scale_vec * np.hypot(gyR, gyZ))
                if not orth:
                    # characterised wrong vector of the recorded finding: Bp_hat + tan(beta)*grad_psi_hat
                    # (the code's tan beta), i.e. the mirror image of the dual vector about Bp_hat
                    sinb_signed = (exR * tR + exZ * tZ) * orient  # e_x . e_y_hat
                    cosb_signed = (exR * gR + exZ * gZ) / gm
                    tanb_code = sinb_signed * orient / cosb_signed  # sinBeta/cosBeta as the code measures
                    bpR, bpZ = orient * tR, orient * tZ  # Bp direction along +y
                    wrongR = (bpR + tanb_code * orient * gR / gm) / hy
                    wrongZ = (bpZ + tanb_code * orient * gZ / gm) / hy
                    wrong_y = cR * wrongR + cZ * wrongZ
                    is_known = vy & (np.abs(got_y - wrong_y) <= tol_y + 1e-7 * np.abs(wrong_y)) & (np.abs(got_y - want_y) > tol_y)
                    stats["nonorth_y_points"] += int(vy.sum())
                    stats["nonorth_y_points_with_angle"] += int((vy & (np.abs(tanb_code) > 1e-3)).sum())
                    viol("curl_bOverB_y uses Bp_hat+tan(beta)*grad_psi_hat instead of the dual basis vector", reg, loc,
                         np.where(is_known, 1.0, 0.0), 0.5, is_known, got=got_y, dual=want_y, characterised=wrong_y)
                    vy = vy & ~is_known
                viol("curl_bOverB_y=curl.grad(y)%s" % ("" if orth else " (nonorth: points where the dual and the characterised vector coincide within tolerance)"),
                     reg, loc, np.abs(got_y - want_y), tol_y, vy, got=got_y, want=want_y)
                # --- z component, relative to the file's own curl_y (pins the zeta part)
                want_z = cT / R - dphidy * got_y
                viol("curl_bOverB_z=curl_zeta/R-dphidy*curl_y", reg, loc, np.abs(A["curl_bOverB_z"][loc] - want_z),
                     1e-8 * (np.abs(cT / R) + np.abs(dphidy * got_y)) + 1e-300, dom)
        for loc in ("centre", "xlow", "ylow"):
            for c in "xyz":
                if loc in A["bxcv" + c] and loc in A["curl_bOverB_" + c]:
                    w = A["Bxy"][loc] / 2.0 * A["curl_bOverB_" + c][loc]
                    g = A["bxcv" + c][loc]
                    with np.errstate(invalid="ignore"):
                        bad = np.abs(g - w) > 1e-14 * np.maximum(np.abs(w), 1e-300)
                    bad &= np.isfinite(w)
                    if bad.any():
                        ctx.violation("%s | bxcv%s != Bxy/2*curl_bOverB_%s | %s" % (mode, c, c, loc),
                                      dict(config=a.config["label"], region=reg["name"]), replay=dict(config=a.config))
    return True


def pair_members(tier):
    base = dict(nx_core=2, nx_sol=2, ny_inner_divertor=3, ny_outer_divertor=3, ny_sol=4)
    dbl = {k: 2 * v for k, v in base.items()}
    out = []
    geoms = ("lsn",) if tier == "quick" else ("lsn", "cdn", "udn")
    for g in geoms:
        for sigma in (1.0, -1.0):
            for sizes, tag in ((base, "res1"), (dbl, "res2")):
                o = dict(sizes)
                if g != "lsn":
                    o["ny_sol"] = o["ny_sol"] + 2 * (2 if tag == "res2" else 1)
                for ct in ("curl(b/B)", XY):
                    out.append(lattice.mk(g, True, opt=dict(o, curvature_type=ct), sigma=sigma,
                                          tags=["curvpair", tag]))
    return out


def check_pairs(ctx, arts, stats):
    """x-y derivative formulation vs the R-Z one on orthogonal grids: agree within the
    discretisation error, which must shrink when every nx, ny is doubled"""
    groups = {}
    for a in arts:
        if not a.ok or "curvpair" not in a.config.get("tags", []):
            continue
        o = a.side["mesh"]["user_options"]
        key = ("%s/sigma=%+d" % (a.config["geom"], int(a.config["sigma"])), "res2" if "res2" in a.config["tags"] else "res1")
        groups.setdefault(key, {})[o["curvature_type"]] = a
    res = {}
    for (g, r), d in groups.items():
        if len(d) != 2:
            continue
        a1, a2 = d["curl(b/B)"], d[XY]
        worst = {}
        for c in "xyz":
            n1, n2 = a1.nc["curl_bOverB_" + c], a2.nc["curl_bOverB_" + c]
            # interior: drop the radial boundary rows and the cells at region ends (one-sided
            # differences / X-points)
            mask = np.zeros(n1.shape, bool)
            for reg in a1.side["regions"]:
                (x0, x1), (y0, y1) = reg["xslice"], reg["yslice"]
                mask[x0 + (1 if reg["connections"]["inner"] is None else 0):x1 - (1 if reg["connections"]["outer"] is None else 0),
                     y0 + 1:y1 - 1] = True
            sc = np.max(np.abs(n1[mask]))
            # the max norm does not converge (cells next to the X-point stay coarse in units
            # of the local scale length); the median over the interior cells does
            worst[c] = float(np.median(np.abs(n1 - n2)[mask]) / sc)
            worst[c + "_negated"] = float(np.median(np.abs(n1 + n2)[mask]) / sc)
            worst[c + "_max"] = float(np.max(np.abs(n1 - n2)[mask]) / sc)
            worst[c + "_negated_max"] = float(np.max(np.abs(n1 + n2)[mask]) / sc)
        res[(g, r)] = worst
        stats["pair_points"] += int(mask.sum())
    out = {}
    for g in {k[0] for k in res}:
        if (g, "res1") in res and (g, "res2") in res:
            for c in "xyz":
                e1, e2 = res[(g, "res1")][c], res[(g, "res2")][c]
                n1, n2 = res[(g, "res1")][c + "_negated"], res[(g, "res2")][c + "_negated"]
                m2, nm2 = res[(g, "res2")][c + "_max"], res[(g, "res2")][c + "_negated_max"]
                out["%s/%s" % (g, c)] = dict(median_res1=e1, median_res2=e2, median_res1_if_negated=n1,
                                             median_res2_if_negated=n2, max_res2=m2)
                if m2 > 0.6 and nm2 < 0.3 and (n2 < 0.6 * n1 or n2 < 1e-4):
                    ctx.violation("orth | x-y formulation gives the opposite sign of the R-Z one (they converge to each other "
                                  "after negation) | curl_bOverB_%s" % c,
                                  dict(case=g, rel_diff_res2=e2, rel_diff_res2_after_negation=n2), replay=dict(kind="pairs"))
                    continue
                if not (e2 < 0.6 * e1 or e2 < 1e-4):
                    ctx.violation("orth | x-y and R-Z curvature formulations do not converge to each other | curl_bOverB_%s" % c,
                                  dict(geom=g, rel_diff_res1=e1, rel_diff_res2=e2), replay=dict(kind="pairs"))
                if m2 > 0.3:
                    ctx.violation("orth | x-y and R-Z curvature formulations differ by O(1) | curl_bOverB_%s" % c,
                                  dict(geom=g, max_rel_diff_res2=m2), replay=dict(kind="pairs"))
    ctx.set("xy_vs_RZ_relative_difference", out)


def check_operator_probes(ctx, a, stats):
    """The x-y formulation differentiates with MeshRegion.DDX / DDY.  The generator applies
    these to fields that are exactly linear in x and in y (vlib/genworker.derivative_probes):
    the result must be 1 at every location of every region, x- and y-joins included (only the
    wrap-around of a periodic y-group, where the linear field jumps, is excluded)."""
    pr = a.side.get("derivative_probes")
    if pr is None:
        return
    regs = {r["myID"]: r for r in a.side["regions"]}
    groups = a.side["mesh"]["y_groups"]
    wrap_first, wrap_last = set(), set()
    for g in groups:
        if regs[g[0]]["connections"]["lower"] is not None:
            wrap_first.add(g[0])
            wrap_last.add(g[-1])
    orth = bool(a.side["mesh"]["user_options"].get("orthogonal", True))
    for rid, d in pr.items():
        reg = regs[rid]
        for op in ("ddx", "ddy"):
            for loc, v in d[op].items():
                v = np.array(v, float)
                ok = np.ones(v.shape, bool)
                if op == "ddy" and loc in ("ylow", "corners"):
                    if rid in wrap_first:
                        ok[:, 0] = False
                    if rid in wrap_last:
                        ok[:, -1] = False
                stats["operator_probe_points"] = stats.get("operator_probe_points", 0) + int(ok.sum())
                err = np.where(ok, np.abs(v - 1.0), 0.0)
                if not np.all(np.isfinite(err)) or err.max() > 1e-9:
                    idx = tuple(map(int, np.argwhere(~(err <= 1e-9))[0]))
                    edge = []
                    if op == "ddx" and idx[0] in (0, v.shape[0] - 1):
                        edge.append("inner" if idx[0] == 0 else "outer")
                    if op == "ddy" and idx[1] in (0, v.shape[1] - 1):
                        edge.append("lower" if idx[1] == 0 else "upper")
                    ctx.violation("%s | %s of a field linear in %s is not 1 | %s%s" % (
                        "orth" if orth else "nonorth", op.upper(), op[-1], loc,
                        (" | at the region's %s edge" % edge[0]) if edge else ""),
                        dict(config=a.config["label"], region=reg["name"], index=list(idx), value=float(v[idx]),
                             neighbours={k: (regs[c]["name"] if c is not None else None)
                                         for k, c in reg["connections"].items()}),
                        replay=dict(config=a.config))


def run(ctx, arts=None, pairs=True):
    if arts is None:
        arts = gu.select(ctx.tier, log=ctx.log, extra=pair_members(ctx.tier) if pairs else None)
    arts = gu.rotate(arts, ctx.seed)
    stats = dict(points=0, points_on_profile_edge_excluded=0, nonorth_y_points=0, nonorth_y_points_with_angle=0, pair_points=0)
    n = refused = 0
    nontrivial = 0
    for a in arts:
        if not a.ok:
            refused += 1
            continue
        check_operator_probes(ctx, a, stats)
        if check_artefact(ctx, a, stats):
            n += 1
            if a.config["fpol"] in ("linear", "quad"):
                nontrivial += 1
            ctx.sample(dict(config=a.config["label"]), limit=5)
    if pairs:
        check_pairs(ctx, arts, stats)
    ctx.set("evaluations", len(arts))
    ctx.set("distinct_nontrivial", nontrivial)
    ctx.set("refused_configurations", refused)
    for k, v in stats.items():
        ctx.set(k, v)
    ctx.set("rule", "corpus lattice plus x-y/R-Z pairs at two resolutions; non-trivial = generated with "
            "fpol' != 0 (linear or quadratic profile), so that every term of curl(b/B) is exercised")
    ctx.set("exhaustive", True)
    ctx.assume("curl(b/B) from analytic second derivatives of the checker's interpolant and its own fpol "
               "spline (cross-checked against finite differences of its own b/B each run)")


def replay(ctx, payload):
    from vlib import corpus

    rp = payload["replay"]
    if rp.get("kind") == "pairs":
        run(ctx)
        return
    arts = corpus.ensure([rp["config"]], log=ctx.log)
    run(ctx, arts, pairs=False)
