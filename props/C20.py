"""C20 - segment / polygon predicates agree with exact arithmetic.

E3-pure, exhaustive on small lattices.  Reference: ref/c20_exact.py (fractions.Fraction).

 1 find_intersections / Equilibrium.wallIntersection: every ordered pair of distinct points
   of the lattice {0, 1/2, ..., 4}^2 (thorough: {0, 1/4, ..., 4}^2) as a segment, against
   each of 13 closed walls, in the given orientation and with R and Z swapped; the same
   again with the whole configuration moved by one of eight pre-declared irrational offsets
   (VERIF_SEED), so that float rounding and not only exact ties is exercised.
 2 closest_approach: lattice points x lattice segments.
 3 polygons.area / clockwise: all ordered lattice triangles and the walls (both
   orientations, all rotations).
 4 polygons.intersect: the two-point polygon [p, q] (the way hypnotoad calls it) against the
   walls, wall against translated wall, and the open-polyline modes closed1/closed2=False.

Degenerate configurations (parallel overlap, touching) are excluded by the exact test in
ref/c20_exact.py (DELTA = 1e-12) and counted; soundness of reported points (they lie on
segment and wall) is still checked for them.
"""

import contextlib
import io
import itertools
import math
import os
import sys
import warnings
from concurrent.futures import ProcessPoolExecutor
from fractions import Fraction as F

import numpy as np

from ref import c20_exact as ex

LEVEL = "exploration"

# every reported point must agree with the exact crossing point to "rounding accuracy".
# Coordinates are O(1..6); the crossing formulas lose at most a factor 1/sin(angle) <= ~300
# on these lattices, so rounding is <~ 1e-13; 1e-12 is the figure named in DESIGN.md.  The
# worst observed value is recorded (worst_point_error) and must stay >= 10x below.
TOL = 1.0e-12
# polygons.area: sum of <= 9 products of magnitude <= 72 -> rounding <~ 1e-13; tolerance
# 1e-11 absolute.
AREA_TOL = 1.0e-11
# closest_approach: lengths <= 8; 1e-12 absolute.
DIST_TOL = 1.0e-12

WALLS = {
    "triangle": [(0, 0), (4, 0), (0, 4)],
    "square_acw": [(1, 1), (3, 1), (3, 3), (1, 3)],
    "square_cw": [(1, 1), (1, 3), (3, 3), (3, 1)],
    "L": [(0, 0), (4, 0), (4, 2), (2, 2), (2, 4), (0, 4)],
    "octagon": [(1, 0), (3, 0), (4, 1), (4, 3), (3, 4), (1, 4), (0, 3), (0, 1)],
    "subdivided_square": [(0, 0), (1, 0), (2, 0), (4, 0), (4, 1), (4, 4), (2, 4), (0, 4),
                          (0, 2)],
    "sliver_flat": [(0, 2), (4, 2), (4, 2 + 1 / 64)],
    "sliver_slope_half": [(0, 1), (4, 3), (4, 3.0625), (0, 1.0625)],
    "sliver_steep": [(1, 0), (1.0625, 0), (3.0625, 4), (3, 4)],
    "star": [(0, 0), (2, 1), (4, 0), (3, 2), (4, 4), (2, 3), (0, 4), (1, 2)],
    "diamond": [(2, 0), (4, 2), (2, 4), (0, 2)],
    "tilted_square": [(0, 1), (3, 0), (4, 3), (1, 4)],
    # tips strictly inside the lattice, each tip the extreme (in the dominant coordinate) of
    # both its edges, both edges of the same slope class
    "four_spikes": [(3.5, 2), (2.5, 2.5), (2, 3.5), (1.5, 2.5), (0.5, 2), (1.5, 1.5), (2, 0.5),
                    (2.5, 1.5)],
}
WALL_NAMES = list(WALLS)

# eight pre-declared irrational offsets (R, Z) of the whole configuration
OFFSETS = [
    (math.sqrt(2.0) - 1.0, math.pi - 3.0),
    (math.e - 2.0, math.sqrt(3.0) - 1.0),
    (math.sqrt(5.0) - 2.0, math.log(2.0)),
    (1.0 / math.pi, math.sqrt(7.0) - 2.0),
    (math.sqrt(11.0) - 3.0, 1.0 / math.e),
    (math.log(3.0) - 1.0, math.sqrt(13.0) - 3.0),
    (math.pi / 4.0, math.sqrt(17.0) - 4.0),
    (math.sqrt(19.0) - 4.0, math.e / 3.0),
]


def lattice_coords(tier):
    if tier == "thorough":
        return [k / 4.0 for k in range(17)]
    return [k / 2.0 for k in range(9)]


def lattice_points(tier):
    c = lattice_coords(tier)
    return [(r, z) for r in c for z in c]


def tr(P, off, swap=False):
    """base coordinates -> actual floats handed to the code"""
    r, z = float(P[0]), float(P[1])
    if off >= 0:
        r = r + OFFSETS[off][0]
        z = z + OFFSETS[off][1]
    return (z, r) if swap else (r, z)


def _silence():
    warnings.simplefilter("ignore")
    np.seterr(all="ignore")


_EQ_CACHE = {}


def make_eq(verts):
    """Equilibrium-like object carrying .wall / .closed_wallarray, built the way the
    repository's own test-suite does (subclass that only sets user_options and wall)"""
    from hypnotoad.core.equilibrium import Equilibrium, Point2D

    class _Eq(Equilibrium):
        def __init__(self, wall):
            self.user_options = Equilibrium.user_options_factory.add(
                refine_width=1.0e-5, refine_atol=2.0e-8
            ).create({})
            self.wall = wall
            super().__init__({})

    with contextlib.redirect_stdout(io.StringIO()):
        return _Eq([Point2D(r, z) for r, z in verts])


def get_eq(wall, off, swap):
    key = (wall, off, swap)
    if key not in _EQ_CACHE:
        verts = [tr(v, off, swap) for v in WALLS[wall]]
        _EQ_CACHE[key] = (make_eq(verts), ex.Wall(verts), verts)
    return _EQ_CACHE[key]


def _cls(dr, dz):
    return "|dR|>|dZ|" if abs(dr) > abs(dz) else "|dR|<=|dZ|"


def _match(rows, crossings):
    """assign each reported row to an exact crossing within TOL.  Returns
    (counts per crossing, unmatched rows, worst error)"""
    counts = [0] * len(crossings)
    unmatched = []
    worst = 0.0
    for x in rows:
        best, bk = None, None
        for k, (_, _, X) in enumerate(crossings):
            e = max(abs(float(x[0]) - float(X[0])), abs(float(x[1]) - float(X[1])))
            if best is None or e < best:
                best, bk = e, k
        if best is not None and best <= TOL:
            counts[bk] += 1
            worst = max(worst, best)
        else:
            unmatched.append([float(x[0]), float(x[1])])
    return counts, unmatched, worst


def check_segwall(wall, off, swap, P, Q, stats, viol, exact=None):
    """one (segment, wall) configuration.  exact: classification already computed for the
    unswapped configuration (swap-symmetric), or None"""
    from hypnotoad.core.equilibrium import Point2D, find_intersections

    eq, W, verts = get_eq(wall, off, swap)
    p, q = tr(P, off, swap), tr(Q, off, swap)
    if exact is None:
        status, crossings, clearance, reason = ex.classify(ex.pt(p), ex.pt(q), W)
    else:
        status, crossings, clearance, reason = exact
        if swap:
            crossings = [(k, i, (X[1], X[0])) for k, i, X in crossings]
    payload = dict(kind="segwall", wall=wall, offset=off, swap=swap, p=list(P), q=list(Q))
    segc = _cls(q[0] - p[0], q[1] - p[1])
    lat = "base lattice" if off < 0 else "offset lattice"

    def v(sig, **d):
        d.update(wall=wall, wall_vertices=verts, p=list(p), q=list(q), swapped=swap,
                 offset=None if off < 0 else list(OFFSETS[off]), exact_status=status,
                 exact_crossings=[[k, i, [float(X[0]), float(X[1])]] for k, i, X in crossings])
        viol.append((sig, d, payload))

    arr0 = eq.closed_wallarray.copy()
    p1, p2 = Point2D(p[0], p[1]), Point2D(q[0], q[1])
    stats["evaluations"] += 1
    try:
        res = find_intersections(eq.closed_wallarray, p1, p2)
    except Exception as e:  # noqa: BLE001
        v("find_intersections | raises %s | segment %s" % (type(e).__name__, segc), error=str(e)[:200])
        return
    if (p1.R, p1.Z, p2.R, p2.Z) != (p[0], p[1], q[0], q[1]) or not np.array_equal(arr0, eq.closed_wallarray):
        v("find_intersections | modifies its inputs")
    # None and an empty array both mean "no point reported"
    rows = [] if res is None else [tuple(r) for r in np.asarray(res)]

    # wallIntersection
    wi_exc = None
    wi = None
    try:
        wi = eq.wallIntersection(Point2D(p[0], p[1]), Point2D(q[0], q[1]))
    except Exception as e:  # noqa: BLE001
        wi_exc = e

    if status == "degenerate":
        stats["degenerate"] += 1
        stats["degenerate:" + reason] = stats.get("degenerate:" + reason, 0) + 1
        # soundness only: whatever is reported lies on both
        pts = list(rows)
        if wi is not None:
            pts.append((wi.R, wi.Z))
        pe, qe = ex.pt(p), ex.pt(q)
        for x in pts:
            xe = ex.pt(x)
            d2s = ex.dist2_point_segment(xe, pe, qe)
            d2w = ex.dist2_point_wall(xe, W)
            ds, dw = math.sqrt(float(d2s)), math.sqrt(float(d2w))
            stats["worst_point_error_degenerate"] = max(stats["worst_point_error_degenerate"], ds, dw)
            if ds > TOL or dw > TOL:
                v("reported point is not on segment and wall | degenerate configuration | %s" % lat,
                  point=[float(x[0]), float(x[1])], dist_segment=ds, dist_wall=dw)
        return

    stats["judged"] += 1
    stats["min_clearance"] = min(stats["min_clearance"], clearance)
    n = len(crossings)
    kinds = sorted(set(k for k, _, _ in crossings))
    if n:
        stats["judged_with_crossing"] += 1
    for k, i, _ in crossings:
        if k == "edge":
            a, b = verts[i], verts[(i + 1) % len(verts)]
            key = "crossing: segment %s x edge %s" % (segc, _cls(b[0] - a[0], b[1] - a[1]))
        else:
            a, b, c = verts[(i - 1) % len(verts)], verts[i], verts[(i + 1) % len(verts)]
            key = "vertex crossing: segment %s x edges %s / %s" % (
                segc, _cls(b[0] - a[0], b[1] - a[1]), _cls(c[0] - b[0], c[1] - b[1]))
        stats[key] = stats.get(key, 0) + 1
    # ---- find_intersections ------------------------------------------------------------
    if n == 0:
        if rows:
            v("find_intersections | point reported although segment and wall do not meet | "
              "segment %s | %s" % (segc, lat), reported=[list(map(float, r)) for r in rows])
    else:
        counts, unmatched, worst = _match(rows, crossings)
        stats["worst_point_error"] = max(stats["worst_point_error"], worst)
        if unmatched:
            v("find_intersections | reported point is not a crossing point | segment %s | %s"
              % (segc, lat), unmatched=unmatched, reported=[list(map(float, r)) for r in rows])
        for c, (k, i, X) in zip(counts, crossings):
            if c == 0:
                v("find_intersections | %s crossing missed | segment %s | %s" % (k, segc, lat),
                  missed=[float(X[0]), float(X[1])], reported=[list(map(float, r)) for r in rows])
            elif (k == "edge" and c != 1) or (k == "vertex" and c > 2):
                v("find_intersections | %s crossing reported %d times | segment %s | %s"
                  % (k, c, segc, lat), point=[float(X[0]), float(X[1])])
    # ---- wallIntersection --------------------------------------------------------------
    if n == 0:
        if wi_exc is not None:
            v("wallIntersection | raises %s although segment and wall do not meet"
              % type(wi_exc).__name__, error=str(wi_exc)[:200])
        elif wi is not None:
            v("wallIntersection | point reported although segment and wall do not meet | "
              "segment %s | %s" % (segc, lat), reported=[float(wi.R), float(wi.Z)])
    elif n == 1:
        k, i, X = crossings[0]
        stats["single_crossings"] += 1
        if k == "vertex":
            stats["single_vertex_crossings"] += 1
        if wi_exc is not None:
            v("wallIntersection | raises %s for a single %s crossing | %s"
              % (type(wi_exc).__name__, k, lat), error=str(wi_exc)[:200],
              find_intersections=[list(map(float, r)) for r in rows])
        elif wi is None:
            v("wallIntersection | single %s crossing missed | segment %s | %s" % (k, segc, lat),
              missed=[float(X[0]), float(X[1])])
        else:
            e = max(abs(wi.R - float(X[0])), abs(wi.Z - float(X[1])))
            stats["worst_point_error"] = max(stats["worst_point_error"], e if e <= TOL else 0.0)
            if e > TOL:
                v("wallIntersection | reported point is not the crossing point | %s" % lat,
                  reported=[float(wi.R), float(wi.Z)], expected=[float(X[0]), float(X[1])])
    else:
        stats["multiple_crossings"] += 1
        if wi_exc is not None:
            key = "multiple_crossings_raise_" + type(wi_exc).__name__
            stats[key] = stats.get(key, 0) + 1
        elif wi is None:
            v("wallIntersection | returns None for a segment crossing the wall %d times" % n)
        else:
            _, unmatched, _ = _match([(wi.R, wi.Z)], crossings)
            if unmatched:
                v("wallIntersection | reported point is not a crossing point (multiple crossings)",
                  reported=unmatched)


def new_stats():
    return dict(evaluations=0, degenerate=0, judged=0, judged_with_crossing=0,
                single_crossings=0, single_vertex_crossings=0, multiple_crossings=0,
                worst_point_error=0.0, worst_point_error_degenerate=0.0, min_clearance=1e9)


def merge_stats(a, b):
    for k, x in b.items():
        if k.startswith("worst"):
            a[k] = max(a.get(k, 0.0), x)
        elif k.startswith("min_"):
            a[k] = min(a.get(k, 1e9), x) if x is not None else a.get(k)
        else:
            a[k] = a.get(k, 0) + x
    return a


def _exact_stats():
    return dict(min_rel_cross_nonparallel=float(ex.STATS["min_rel_cross_nonparallel"] or 1e9),
                min_abs_cross_nonparallel=float(ex.STATS["min_abs_cross_nonparallel"] or 1e9))


def segwall_task(task):
    """all segments starting at lattice point index i0, against one wall, one offset; plain and
    swapped; plus polygons.intersect with the two-point polygon [p, q]"""
    from hypnotoad.utils import polygons

    wall, off, i0, tier = task
    _silence()
    pts = lattice_points(tier)
    stats = new_stats()
    istats = dict(intersect_evaluations=0, intersect_degenerate=0, intersect_judged=0,
                  intersect_true=0)
    viol = []
    P = pts[i0]
    devnull = open(os.devnull, "w")
    old = sys.stdout
    sys.stdout = devnull
    try:
        eq, W, verts = get_eq(wall, off, False)
        for j, Q in enumerate(pts):
            if j == i0:
                continue
            p, q = tr(P, off), tr(Q, off)
            exact = ex.classify(ex.pt(p), ex.pt(q), W)
            check_segwall(wall, off, False, P, Q, stats, viol, exact)
            check_segwall(wall, off, True, P, Q, stats, viol, exact)
            # polygons.intersect([Rc, R], [Zc, Z], Rwall, Zwall) as tokamak.py calls it
            status, crossings = exact[0], exact[1]
            istats["intersect_evaluations"] += 1
            try:
                got = polygons.intersect([p[0], q[0]], [p[1], q[1]], [a for a, _ in verts],
                                         [b for _, b in verts])
            except Exception as e:  # noqa: BLE001
                viol.append(("polygons.intersect | raises %s" % type(e).__name__,
                             dict(wall=wall, p=list(p), q=list(q), error=str(e)[:200]),
                             dict(kind="intersect2", wall=wall, offset=off, p=list(P), q=list(Q))))
                continue
            if status == "degenerate" or any(k == "vertex" for k, _, _ in crossings):
                istats["intersect_degenerate"] += 1  # touching a vertex is degenerate here
            else:
                istats["intersect_judged"] += 1
                want = len(crossings) > 0
                istats["intersect_true"] += want
                if bool(got) != want:
                    viol.append((
                        "polygons.intersect | two-point polygon vs closed wall | closed1=True "
                        "closed2=True | reports %s, exact %s" % (bool(got), want),
                        dict(wall=wall, wall_vertices=verts, p=list(p), q=list(q),
                             exact_crossings=[[float(X[0]), float(X[1])] for _, _, X in crossings]),
                        dict(kind="intersect2", wall=wall, offset=off, p=list(P), q=list(Q))))
    finally:
        sys.stdout = old
        devnull.close()
    stats.update(istats)
    return stats, viol[:40], len(viol), _exact_stats()


# ---- closest_approach ------------------------------------------------------------------
def check_closest(X, A, B, off, stats, viol):
    from hypnotoad.core.equilibrium import closest_approach

    x, a, b = tr(X, off), tr(A, off), tr(B, off)
    d2 = ex.dist2_point_segment(ex.pt(x), ex.pt(a), ex.pt(b))
    want = math.sqrt(float(d2))
    stats["closest_evaluations"] += 1
    if d2 > 0:
        stats["closest_nonzero"] += 1
    try:
        got = float(closest_approach(np.array(x), np.array(a), np.array(b)))
    except Exception as e:  # noqa: BLE001
        viol.append(("closest_approach | raises %s" % type(e).__name__,
                     dict(x=list(x), a=list(a), b=list(b), error=str(e)[:200]),
                     dict(kind="closest", offset=off, x=list(X), a=list(A), b=list(B))))
        return
    err = abs(got - want)
    if not err <= DIST_TOL:
        # which branch of the reference: foot inside / beyond a / beyond b
        viol.append(("closest_approach | differs from exact distance",
                     dict(x=list(x), a=list(a), b=list(b), got=got, exact=want),
                     dict(kind="closest", offset=off, x=list(X), a=list(A), b=list(B))))
    else:
        stats["worst_closest_error"] = max(stats["worst_closest_error"], err)


def closest_segments(tier):
    ints = [(float(r), float(z)) for r in range(5) for z in range(5)]
    halves = [(r + 0.5, z + 0.5) for r in range(4) for z in range(4)]
    segs = [(a, b) for a in ints for b in ints if a != b]
    segs += [(a, b) for a in halves for b in halves if a != b]
    return segs


def closest_task(task):
    off, k, nk, tier = task
    _silence()
    stats = dict(closest_evaluations=0, closest_nonzero=0, worst_closest_error=0.0)
    viol = []
    pts = lattice_points(tier)
    for a, b in closest_segments(tier)[k::nk]:
        for x in pts:
            check_closest(x, a, b, off, stats, viol)
    return stats, viol[:40], len(viol), _exact_stats()


# ---- polygons.area / clockwise -----------------------------------------------------------
def check_area(verts_base, off, stats, viol):
    from hypnotoad.utils import polygons

    verts = [tr(v, off) for v in verts_base]
    s2 = ex.shoelace2([ex.pt(v) for v in verts])  # > 0: anticlockwise
    want = -float(s2) / 2.0  # hypnotoad's convention: positive = clockwise
    stats["area_evaluations"] += 1
    payload = dict(kind="area", verts=[list(v) for v in verts_base], offset=off)
    try:
        got = float(polygons.area(verts))
        cw = bool(polygons.clockwise(verts))
    except Exception as e:  # noqa: BLE001
        viol.append(("polygons.area | raises %s" % type(e).__name__,
                     dict(verts=verts, error=str(e)[:200]), payload))
        return
    err = abs(got - want)
    if not err <= AREA_TOL:
        viol.append(("polygons.area | differs from exact area", dict(verts=verts, got=got, exact=want),
                     payload))
    else:
        stats["worst_area_error"] = max(stats["worst_area_error"], err)
    if abs(want) > 1e-9:  # orientation is defined away from zero area
        stats["orientation_judged"] += 1
        if cw != (s2 < 0):
            viol.append(("polygons.clockwise | orientation differs from exact area sign",
                         dict(verts=verts, got=cw, exact_area=want), payload))
    else:
        stats["orientation_degenerate"] += 1


def area_task(task):
    off, k, nk = task
    _silence()
    stats = dict(area_evaluations=0, orientation_judged=0, orientation_degenerate=0,
                 worst_area_error=0.0)
    viol = []
    ints = [(float(r), float(z)) for r in range(5) for z in range(5)]
    tris = list(itertools.permutations(ints, 3))
    for t in tris[k::nk]:
        check_area(list(t), off, stats, viol)
    if k == 0:
        for name, w in WALLS.items():
            for seq in (w, w[::-1]):
                for r in range(len(seq)):
                    check_area([(float(a), float(b)) for a, b in seq[r:] + seq[:r]], off, stats, viol)
    return stats, viol[:40], len(viol), _exact_stats()


# ---- polygons.intersect, polygon vs polygon and open modes ---------------------------------
def check_intersect(poly1, poly2, closed1, closed2, off, stats, viol, label):
    from hypnotoad.utils import polygons

    v1 = [tr(v, off) for v in poly1]
    v2 = [tr(v, off) for v in poly2]
    e1 = ex.edge_list([ex.pt(v) for v in v1], closed1)
    e2 = ex.edge_list([ex.pt(v) for v in v2], closed2)
    # polygons.intersect skips pairs with |det| < 1e-6 (absolute): ten times that counts as
    # near parallel here
    status, want = ex.polylines_cross(e1, e2, par_abs=F(1, 10**5))
    stats["intersect_evaluations"] += 1
    payload = dict(kind="intersect", poly1=[list(v) for v in poly1], poly2=[list(v) for v in poly2],
                   closed1=closed1, closed2=closed2, offset=off, label=label)
    try:
        got = polygons.intersect([a for a, _ in v1], [b for _, b in v1], [a for a, _ in v2],
                                 [b for _, b in v2], closed1=closed1, closed2=closed2)
    except Exception as e:  # noqa: BLE001
        viol.append(("polygons.intersect | raises %s | %s" % (type(e).__name__, label),
                     dict(poly1=v1, poly2=v2, error=str(e)[:200]), payload))
        return
    if status == "degenerate":
        stats["intersect_degenerate"] += 1
        return
    stats["intersect_judged"] += 1
    stats["intersect_true"] += bool(want)
    if bool(got) != bool(want):
        viol.append(("polygons.intersect | %s | closed1=%s closed2=%s | reports %s, exact %s"
                     % (label, closed1, closed2, bool(got), bool(want)),
                     dict(poly1=v1, poly2=v2, closed1=closed1, closed2=closed2), payload))


def shifts(tier):
    if tier == "thorough":
        c = [k / 2.0 for k in range(-4, 5)]
        return [(a, b) for a in c for b in c]
    c1 = [-2.0, -1.0, 0.0, 1.0, 2.0]
    c2 = [-1.5, -0.5, 0.5, 1.5]
    return [(a, b) for a in c1 for b in c1] + [(a, b) for a in c2 for b in c2]


def intersect_task(task):
    kind, off, name1, tier = task
    _silence()
    stats = dict(intersect_evaluations=0, intersect_degenerate=0, intersect_judged=0,
                 intersect_true=0)
    viol = []
    if kind == "wallwall":
        w1 = [(float(a), float(b)) for a, b in WALLS[name1]]
        for name2 in WALL_NAMES:
            for sx, sz in shifts(tier):
                w2 = [(float(a) + sx, float(b) + sz) for a, b in WALLS[name2]]
                check_intersect(w1, w2, True, True, off, stats, viol, "wall vs translated wall")
    else:  # open modes: segment (two points) against the wall's vertex list
        w = [(float(a), float(b)) for a, b in WALLS[name1]]
        ints = [(float(r), float(z)) for r in range(5) for z in range(5)]
        for p in ints:
            for q in ints:
                if p == q:
                    continue
                for c1, c2 in ((True, False), (False, True), (False, False)):
                    check_intersect([p, q], w, c1, c2, off, stats, viol, "open polyline mode")
    return stats, viol[:40], len(viol), _exact_stats()


# ---------------------------------------------------------------------------------------
def _dispatch(job):
    kind, task = job
    return kind, {"segwall": segwall_task, "closest": closest_task, "area": area_task,
                  "intersect": intersect_task}[kind](task)


def run(ctx):
    _silence()
    tier = ctx.tier
    off = ctx.seed % 8
    npts = len(lattice_points(tier))
    jobs = []
    for o in (-1, off):
        for w in WALL_NAMES:
            for i0 in range(npts):
                jobs.append(("segwall", (w, o, i0, tier)))
        nk = 32
        for k in range(nk):
            jobs.append(("closest", (o, k, nk, tier)))
        for k in range(16):
            jobs.append(("area", (o, k, 16)))
        for w in WALL_NAMES:
            jobs.append(("intersect", ("wallwall", o, w, tier)))
            jobs.append(("intersect", ("open", o, w, tier)))
    # seed permutes the work order only
    r = (ctx.seed * 7919) % len(jobs)
    jobs = jobs[r:] + jobs[:r]
    # heavy jobs first
    jobs.sort(key=lambda j: 0 if j[0] == "intersect" else 1)
    totals = {}
    exs = dict(min_rel_cross_nonparallel=1e9, min_abs_cross_nonparallel=1e9)
    nviol = 0
    with ProcessPoolExecutor(max_workers=16) as pool:
        for kind, (stats, viol, nv, es) in pool.map(_dispatch, jobs, chunksize=4):
            merge_stats(totals.setdefault(kind, {}), stats)
            nviol += nv
            for k in exs:
                exs[k] = min(exs[k], es[k])
            for sig, detail, payload in viol:
                ctx.violation(sig, detail, replay=payload)
    sw = totals["segwall"]
    ctx.log("segment/wall: %d evaluations, %d judged, %d degenerate" % (
        sw["evaluations"], sw["judged"], sw["degenerate"]))
    ev = (sw["evaluations"] * 2 + sw["intersect_evaluations"] + totals["closest"]["closest_evaluations"]
          + totals["area"]["area_evaluations"] + totals["intersect"]["intersect_evaluations"])
    ctx.set("evaluations", ev)
    ctx.set("segment_wall_configurations", sw["evaluations"])
    ctx.set("segment_wall_judged", sw["judged"])
    ctx.set("segment_wall_judged_with_crossing", sw["judged_with_crossing"])
    ctx.set("segment_wall_excluded_degenerate", sw["degenerate"])
    ctx.set("degenerate_by_reason", {k[11:]: v for k, v in sw.items() if k.startswith("degenerate:")})
    ctx.set("crossings_by_slope_class", {k: v for k, v in sw.items()
                                         if k.startswith("crossing:") or k.startswith("vertex crossing:")})
    ctx.set("wallIntersection_single_crossings", sw["single_crossings"])
    ctx.set("wallIntersection_single_vertex_crossings", sw["single_vertex_crossings"])
    ctx.set("wallIntersection_multiple_crossings", sw["multiple_crossings"])
    ctx.set("wallIntersection_multiple_crossings_outcomes",
            {k[len("multiple_crossings_raise_"):]: v for k, v in sw.items()
             if k.startswith("multiple_crossings_raise_")})
    ctx.set("worst_point_error", sw["worst_point_error"])
    ctx.set("worst_point_error_degenerate_cases", sw["worst_point_error_degenerate"])
    ctx.set("point_tolerance", TOL)
    ctx.set("smallest_clearance_of_a_judged_configuration", sw["min_clearance"])
    ctx.set("degenerate_clearance_DELTA", float(ex.DELTA))
    ctx.set("smallest_relative_cross_product_treated_as_nonparallel", exs["min_rel_cross_nonparallel"])
    ctx.set("smallest_absolute_cross_product_treated_as_nonparallel", exs["min_abs_cross_nonparallel"])
    it = merge_stats(dict(totals["intersect"]), {k: v for k, v in sw.items() if k.startswith("intersect_")})
    ctx.set("polygons_intersect_evaluations", it["intersect_evaluations"])
    ctx.set("polygons_intersect_judged", it["intersect_judged"])
    ctx.set("polygons_intersect_judged_true", it["intersect_true"])
    ctx.set("polygons_intersect_excluded_degenerate", it["intersect_degenerate"])
    for k, v in totals["closest"].items():
        ctx.set(k, v)
    for k, v in totals["area"].items():
        ctx.set(k, v)
    ctx.set("distance_tolerance", DIST_TOL)
    ctx.set("area_tolerance", AREA_TOL)
    ctx.set("distinct_nontrivial", sw["judged_with_crossing"] + it["intersect_true"]
            + totals["closest"]["closest_nonzero"] + totals["area"]["orientation_judged"])
    ctx.set("rule", "segments: every ordered pair of distinct points of the lattice (%d points) x 13 "
            "walls x {as given, R<->Z swapped} x {base lattice, base + seed offset}; each "
            "configuration is classified exactly (Fractions); distinct by construction; non-trivial = "
            "judged (not degenerate) and the segment crosses the wall at least once.  "
            "polygons.intersect: non-trivial = judged and exact answer True.  closest_approach: "
            "lattice points x segments of the integer and half-shifted lattices, non-trivial = exact "
            "distance > 0.  area/clockwise: all ordered triangles of {0..4}^2 and all rotations of "
            "both orientations of the walls, non-trivial = |area| > 1e-9." % npts)
    ctx.set("lattice_points", npts)
    ctx.set("walls", WALL_NAMES)
    ctx.set("seed_offset", list(OFFSETS[off]))
    ctx.set("exhaustive", True)
    ctx.sample(dict(wall="square_acw", p=[0.0, 0.0], q=[2.0, 2.0], exact="vertex crossing at (1,1)"))
    ctx.sample(dict(wall="star", p=[0.5, 0.5], q=[3.5, 2.0], offset=list(OFFSETS[off])))
    ctx.assume("degenerate class (excluded, counted): see ref/c20_exact.py docstring; DELTA = 1e-12 "
               "= 100 x intersect_tolerance")
    ctx.assume("a segment crossing the wall at two or more distinct points may make wallIntersection "
               "raise (it does: AttributeError from the plotting of 'Multiple intersections'); only "
               "returning None is judged wrong there")


def replay(ctx, payload):
    _silence()
    p = payload["replay"]
    viol = []
    kind = p["kind"]
    devnull = open(os.devnull, "w")
    old = sys.stdout
    sys.stdout = devnull
    try:
        if kind == "segwall":
            check_segwall(p["wall"], p["offset"], p["swap"], tuple(p["p"]), tuple(p["q"]),
                          new_stats(), viol)
        elif kind == "closest":
            check_closest(tuple(p["x"]), tuple(p["a"]), tuple(p["b"]), p["offset"],
                          dict(closest_evaluations=0, closest_nonzero=0, worst_closest_error=0.0), viol)
        elif kind == "area":
            check_area([tuple(v) for v in p["verts"]], p["offset"],
                       dict(area_evaluations=0, orientation_judged=0, orientation_degenerate=0,
                            worst_area_error=0.0), viol)
        elif kind == "intersect":
            check_intersect([tuple(v) for v in p["poly1"]], [tuple(v) for v in p["poly2"]],
                            p["closed1"], p["closed2"], p["offset"],
                            dict(intersect_evaluations=0, intersect_degenerate=0, intersect_judged=0,
                                 intersect_true=0), viol, p["label"])
        elif kind == "intersect2":
            w = [(float(a), float(b)) for a, b in WALLS[p["wall"]]]
            check_intersect([tuple(p["p"]), tuple(p["q"])], w, True, True, p["offset"],
                            dict(intersect_evaluations=0, intersect_degenerate=0, intersect_judged=0,
                                 intersect_true=0), viol, "two-point polygon vs closed wall")
    finally:
        sys.stdout = old
        devnull.close()
    for sig, detail, pl in viol:
        ctx.violation(sig, detail, replay=pl)
    ctx.set("evaluations", 1)
