"""C08 - block topology, branch-cut indices and global index map are consistent.

Engine E4 (engine/topo.py).  Model enumeration over per-region size vectors x guard
counts with stand-in regions through the real index/write code; breadth-first traversal
of every written file's cell graph; conformance replay of every real corpus grid through
the same checker plus equality of integers / region_indices between real and stand-in
runs of equal sizes.
"""

import itertools
import os
from concurrent.futures import ProcessPoolExecutor

import numpy as np

from engine import topo
from vlib import gridutil as gu

LEVEL = "model_checking"

SN = ("lsn", "usn")
DN = ("cdn", "ldn", "udn")


def opts_for(kind, sizes, nxs, myg, upper_outer=False):
    if kind == "circular":
        return dict(nx=nxs[0], ny=sizes[0], y_boundary_guards=myg, orthogonal=True)
    o = dict(y_boundary_guards=myg, orthogonal=True, finecontour_Nfine=30)
    if kind in SN:
        o.update(ny_inner_divertor=sizes[0], ny_sol=sizes[1], ny_outer_divertor=sizes[2],
                 nx_core=nxs[0], nx_sol=nxs[1])
        if sizes[1] < 2:
            # ny_inner_sol defaults to ny_sol // 2 = 0, which the options check rejects even
            # though a single null does not use it
            o.update(ny_inner_sol=1, ny_outer_sol=1)
    else:
        o.update(ny_inner_lower_divertor=sizes[0], ny_inner_sol=sizes[1],
                 ny_inner_upper_divertor=sizes[2], ny_outer_upper_divertor=sizes[3],
                 ny_outer_sol=sizes[4], ny_outer_lower_divertor=sizes[5],
                 nx_core=nxs[0], nx_inter_sep=nxs[1] if kind != "cdn" else 0, nx_sol=nxs[2])
        if upper_outer:
            o["start_at_upper_outer"] = True
    return o


def lattice(tier):
    mem = []
    guards = (0, 1, 2, 3)
    if tier == "quick":
        sn_sizes = list(itertools.product((1, 2, 4, 7), repeat=3))
        dn_vals = (1, 4)
        circ = range(1, 7)
        dn_kinds = DN
    else:
        sn_sizes = list(itertools.product((1, 2, 3, 4, 7, 12), repeat=3))
        dn_vals = (1, 3, 6)
        circ = range(1, 13)
        dn_kinds = DN
    for kind in SN:
        for s in sn_sizes:
            for g in (guards if tier != "quick" else (0, 1, 3)):
                mem.append((kind, s, (2, 2), g, False))
    for kind in dn_kinds:
        for s in itertools.product(dn_vals, repeat=6):
            for g in (guards if tier != "quick" else (0, 2)):
                mem.append((kind, s, (2, 1, 2), g, False))
    # start_at_upper_outer
    for kind in ("udn", "ldn", "cdn"):
        for s in itertools.product((1, 4) if tier == "quick" else (1, 3, 6), repeat=6):
            if tier == "quick" and sum(s) % 3:  # a third of the lattice in the quick tier
                continue
            for g in (0, 2):
                mem.append((kind, s, (2, 1, 2), g, True))
    # radial sizes (x index logic does not interact with y)
    for kind in ("lsn",):
        for nxs in itertools.product((1, 2, 3), repeat=2):
            mem.append((kind, (2, 4, 3), nxs, 1, False))
    for kind in ("ldn", "udn", "cdn"):
        for nxs in itertools.product((1, 2, 3), repeat=3):
            mem.append((kind, (2, 3, 2, 3, 4, 2), nxs, 1, False))
    # inter-separatrix segments wider than one cell, with and without guard cells: a one-cell
    # segment has both corners of its y-edge on lines shared with the neighbouring segments, so a
    # wrong or missing y-connection of that segment alone is not exhibited by its corners
    for kind in ("ldn", "udn"):
        for s in ((2, 3, 2, 3, 4, 2), (4, 4, 4, 4, 4, 4)):
            for nxs in ((2, 2, 2), (1, 3, 2)):
                for g in (0, 2):
                    for uo in (False, True):
                        mem.append((kind, s, nxs, g, uo))
    for n in circ:
        for g in (0, 1, 2):
            mem.append(("circular", (n,), (2,), g, False))
    return mem


def run_member(m):
    kind, sizes, nxs, myg, uo = m
    o = opts_for(kind, sizes, nxs, myg, uo)
    info = topo.standin_file(kind, o)
    if "refused" in info:
        return dict(member=m, refused=info["refused"])
    probs, stats = topo.check_file(info["file"], info)
    ints = {k: int(info["file"][k]) for k in topo.INTS}
    return dict(member=m, problems=probs[:6], nprob=len(probs), stats=stats, ints=ints,
                ri=info["region_indices"], nx=info["nx"], ny=info["ny"])


def run_chunk(ms):
    return [run_member(m) for m in ms]


def classify(sig, member):
    kind = member[0]
    topo_class = "single-null" if kind in SN else ("circular" if kind == "circular" else "double-null")
    return "%s | %s" % (topo_class, sig)


def run(ctx):
    mem = gu.rotate(lattice(ctx.tier), ctx.seed)
    ctx.log("stand-in model: %d members" % len(mem))
    nproc = min(16, os.cpu_count() or 1)
    chunks = [mem[i::nproc * 4] for i in range(nproc * 4)]
    states = transitions = 0
    refused = 0
    ok_members = 0
    table = {}
    with ProcessPoolExecutor(nproc) as pool:
        for res in pool.map(run_chunk, chunks):
            for r in res:
                if "refused" in r:
                    refused += 1
                    ctx.add("refused_by_code[%s]" % r["refused"][:60])
                    continue
                ok_members += 1
                states += r["stats"]["cells"]
                transitions += r["stats"]["edges"]
                table[tuple(map(str, r["member"]))] = (r["ints"], r["ri"])
                ctx.sample(dict(member=r["member"], ints=r["ints"], cells=r["stats"]["cells"]), limit=4)
                for sig, detail in r["problems"]:
                    detail = dict(detail)
                    detail["member"] = r["member"]
                    ctx.violation(classify(sig, r["member"]), detail,
                                  replay=dict(kind="standin", member=r["member"]))
    ctx.set("states", states)
    ctx.set("transitions", transitions)
    ctx.set("model_members", len(mem))
    ctx.set("model_members_checked", ok_members)
    ctx.set("model_members_refused", refused)

    # ---- conformance: real corpus grids through the same checker ------------------------
    arts = gu.select(ctx.tier, log=ctx.log)
    validated = 0
    for a in arts:
        if not a.ok:
            continue
        f = {k: v for k, v in a.nc.items() if not k.startswith("__") and not isinstance(v, str)}
        side = a.side
        info = dict(
            region_indices={r["myID"]: (tuple(r["xslice"]), tuple(r["yslice"])) for r in side["regions"]},
            connections={r["myID"]: r["connections"] for r in side["regions"]},
            sizes={r["myID"]: (r["nx"], r["ny"]) for r in side["regions"]},
            names={r["myID"]: r["name"] for r in side["regions"]},
        )
        # coordinates of a shared point agree to the accuracy with which the two regions
        # followed grad(psi): 1e-6 m at default tolerances, scaled for the deviations
        uo = side["mesh"]["user_options"]
        qtol = 1e-6 * max(1.0, float(uo.get("follow_perpendicular_rtol", 2e-8)) / 2e-8,
                          float(uo.get("follow_perpendicular_atol", 1e-8)) / 1e-8)
        probs, stats = topo.check_file(f, info, q=qtol, real=True)
        states += stats["cells"]
        transitions += stats["edges"]
        for sig, detail in probs[:6]:
            detail = dict(detail)
            detail["config"] = a.config["label"]
            mode = "orth" if side["mesh"]["user_options"].get("orthogonal", True) else "nonorth"
            ctx.violation("real grid | %s | %s" % (mode, classify(sig, (a.config["geom"],))), detail,
                          replay=dict(kind="real", config=a.config))
        # shared y-edges: the file shows one value (getRZBoundary copies the upper neighbour's
        # first row over the region's own last row); the two regions' OWN versions of the edge
        # must coincide too, otherwise hy, distances and zShift of the lower region refer to
        # points that are not the ones written
        from ref import trace as _trace

        regs_by_id = {r["myID"]: r for r in side["regions"]}
        worst_edge = 0.0
        mode = "orth" if side["mesh"]["user_options"].get("orthogonal", True) else "nonorth"
        for r in side["regions"]:
            up = r["connections"]["upper"]
            if up is None or "own_last" not in r:
                continue
            U = regs_by_id[up]
            for k in range(2 * r["nx"] + 1):
                if _trace.pinned_points(r, k)[-1]:
                    continue
                first = _trace.contour_points(U, k)[0]
                dd = float(np.hypot(*(r["own_last"][k] - first)))
                if gu.in_domain(a, first[0], first[1]):
                    worst_edge = max(worst_edge, dd)
                    transitions += 1
        ctx.setmax("worst_own_vs_neighbour_shared_y_edge_mismatch_m", worst_edge)
        if worst_edge > 1e-6:
            ctx.violation("real grid | %s | shared y-edge: a region's own end points differ from its upper neighbour's start points" % mode,
                          dict(config=a.config["label"], worst_mismatch_m=worst_edge),
                          replay=dict(kind="real", config=a.config))
        # stand-in run of the same sizes must write identical integers and index ranges
        if a.config.get("family") == "X":
            validated += 1  # file-level checks only: no stand-in equilibrium for the TORPEX path
            continue
        o = side["eq"]["user_options"]
        so = {k: o[k] for k in o if k.startswith(("nx_", "ny_", "psinorm_", "psi_")) or k in ("y_boundary_guards", "start_at_upper_outer")}
        so = {k: v for k, v in so.items() if v is not None and k != "psi_interpolation_method"}
        so["orthogonal"] = True
        so["finecontour_Nfine"] = 30
        sinfo = topo.standin_file(a.config["geom"], so)
        if "refused" in sinfo:
            ctx.violation("conformance | stand-in refused sizes the real pipeline accepted",
                          dict(config=a.config["label"], refused=sinfo["refused"]),
                          replay=dict(kind="real", config=a.config))
            continue
        same = all(int(sinfo["file"][k]) == int(f[k]) for k in topo.INTS + ("nx", "ny", "y_boundary_guards"))
        same &= sinfo["region_indices"] == {k: (tuple(v[0]), tuple(v[1])) for k, v in info["region_indices"].items()}
        if not same:
            ctx.violation("conformance | stand-in and real run of equal sizes wrote different integers or index ranges",
                          dict(config=a.config["label"],
                               real={k: int(f[k]) for k in topo.INTS}, standin={k: int(sinfo["file"][k]) for k in topo.INTS}),
                          replay=dict(kind="real", config=a.config))
        else:
            validated += 1
    ctx.set("states", states)
    ctx.set("transitions", transitions)
    ctx.set("traces_validated_against_impl", validated)
    ctx.set("exhaustive", True)
    ctx.set("bounds", "per-region ny vectors over the stated value sets, y_boundary_guards 0..3, nx vectors over {1,2,3}^m; see props/C08.py lattice()")
    ctx.assume("BOUT++ reading of the integers: 40-line reference model in engine/topo.py written from "
               "BoutMesh::topology (ixseps1 = lower, ixseps2 = upper X-point separatrix)")
    ctx.assume("stand-in coordinates are labels unified over the real connection table; real coordinates "
               "are compared after quantisation at 1e-7 m")


def replay(ctx, payload):
    rp = payload["replay"]
    if rp["kind"] == "standin":
        m = rp["member"]
        m = (m[0], tuple(m[1]), tuple(m[2]), m[3], m[4])
        r = run_member(m)
        print(r.get("ints"), r.get("refused"))
        for sig, detail in r.get("problems", []):
            ctx.violation(classify(sig, m), detail, replay=rp)
    else:
        from vlib import corpus

        arts = corpus.ensure([rp["config"]], log=ctx.log)
        a = arts[0]
        f = {k: v for k, v in a.nc.items() if not k.startswith("__") and not isinstance(v, str)}
        probs, stats = topo.check_file(f, None, q=1e-6, real=True)
        mode = "orth" if a.side["mesh"]["user_options"].get("orthogonal", True) else "nonorth"
        for sig, detail in probs:
            ctx.violation("real grid | %s | %s" % (mode, classify(sig, (a.config["geom"],))), detail, replay=rp)
