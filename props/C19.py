"""C19 - critical points are found, classified, ordered and selected correctly.

E3-pure, three parts (all lattices enumerated completely):

A  ``critical.find_critical`` on families of flux functions whose critical points are known in
   closed form (ref/c19_families.py): families x resolutions x both signs of psi x
   (atol, maxits) x rigid shifts of the whole function over the 4x4 sub-cell lattice
   {0, 1/4, 1/2, 3/4}^2 of the input grid (VERIF_SEED adds one of eight pre-declared
   odd-eighth shift pairs, explored in full with all other axes).
B  ``TokamakEquilibrium.makeRegions``: single / double null decision on a psinorm_sol ladder
   straddling the secondary X-point's normalised psi (incl. +-1e-6) x walls x geometries x
   both signs; leg naming inner/outer by strike-point major radius.
C  ``Equilibrium.findSaddlePoint`` on polynomial saddles at the same sub-cell shifts, boxes
   aligned and rotated, both interpolation methods.

References: Newton on the analytic function (A), Newton / bracketing on the checker's own
interpolant of the input array (ref/interp.py) (B, C), exact even-odd point-in-polygon test.
"""

import concurrent.futures as cf
import contextlib
import io
import os
import signal
import warnings

import numpy as np

from ref import c19_families as fams
from ref import interp
from vlib import families as vfam

LEVEL = "exploration"

SUB = (0.0, 0.25, 0.5, 0.75)
# eight pre-declared phase offsets (fractions of a cell) added to every sub-cell shift;
# VERIF_SEED % 8 selects one, explored in full on top of the base lattice (phase 0)
SEED_PHASES = [(0.125, 0.125), (0.125, 0.375), (0.375, 0.125), (0.375, 0.375),
               (0.125, 0.0), (0.0, 0.125), (0.375, 0.0), (0.0, 0.375)]
ATOLS = [(1e-6, 100), (1e-12, 1000)]  # (atol on Bp^2, maxits): the tests' / a tight one

# ---- tolerances ---------------------------------------------------------------------------
# Residual: the property's own criterion, (|grad psi|/R)^2 < atol at the returned position,
# evaluated on the checker's spline of the same array (1e-6 relative slack for rounding;
# by construction the code stops just below atol, so no margin exists here).
RES_SLACK = 1.0 + 1e-6
# Position against the analytic critical point: what atol permits, |grad psi| < sqrt(atol) R
# => displacement < sqrt(atol) R / s_min(Hessian) (analytic Hessian; factor 1.5 because the
# spline's Hessian differs a little), plus the interpolation error of the bicubic spline's
# gradient divided by the Hessian: observed <= 0.004 cell (atol 1e-12) - granted 0.05 cell.
POS_INTERP_CELLS = 0.05
# ... times max(1, 0.4 s_max/s_min): the gradient error is set by the narrow direction of a
# hill, the displacement it causes by the weak direction of the Hessian (for the elliptical
# hills s_max/s_min = kappa^2; observed 0.002 kappa^2 cell - granted 0.02 kappa^2)
POS_ANISO = 0.4
# psi at the critical point: the spline's value error C (h/w)^4 |psi| (w narrowest Gaussian
# width; observed <= 2e-4 of the bound with C = 1) plus the second-order effect of the position
PSI_C = 1.0
# X-points whose analytic |psi - psi_axis| differ by less than this (relative) have no
# defined order (connected double null): the order is then not judged (counted)
ORDER_GAP = 1e-6


# tilted elongated O-points: elongation x tilt angle (degrees) of the elliptical flux surfaces
ELL_LATTICE = {
    "quick": ([1.5, 2.0, 2.6], [20.0, 45.0, 65.0, -40.0]),
    "thorough": ([1.25, 1.5, 1.75, 2.0, 2.6, 3.2], [10.0, 20.0, 30.0, 45.0, 60.0, 65.0, 80.0, -25.0, -40.0, -70.0]),
}


def ell_families(tier):
    ks, ths = ELL_LATTICE[tier]
    return [fams.ell_name(k, t) for k in ks for t in ths]


def resolutions(tier):
    r = [(33, 33), (65, 65), (65, 97)]
    if tier == "thorough":
        r += [(129, 129), (97, 65), (129, 257), (64, 64), (100, 150), (257, 257)]
    else:
        r += [(129, 129)]
    return r


_BASE_CP = {}


def base_cps(name):
    """analytic critical points of the unshifted family (computed once per process)"""
    if name not in _BASE_CP:
        _BASE_CP[name] = fams.Fam(name).critical_points(nstart=(31, 61))
    return _BASE_CP[name]


def _wmin(name):
    t = fams.FAMILIES.get(name)
    return min(min(x[3], x[4]) for x in t) if t else None


# ============================ part A: find_critical ========================================
def fc_task(task):
    """one (family, resolution): all signs x atols x shifts; returns violations and stats"""
    from hypnotoad.utils import critical

    warnings.simplefilter("ignore")
    np.seterr(all="ignore")
    name, (nR, nZ), shifts = task["family"], task["res"], task["shifts"]
    Rmin, Rmax, Zmin, Zmax = fams.DOMAIN
    R1, Z1 = np.linspace(Rmin, Rmax, nR), np.linspace(Zmin, Zmax, nZ)
    dR, dZ = R1[1] - R1[0], Z1[1] - Z1[0]
    R2, Z2 = np.meshgrid(R1, Z1, indexing="ij")
    cps0 = base_cps(name)
    viol, st = [], dict(cases=0, points=0, order_skipped=0, worst_pos=0.0, worst_res=0.0, worst_psi=0.0,
                        worst_pos_cells_tight=0.0, worst_pos_model=0.0, sample=None)
    for sg in task["signs"]:
        for (sa, sb) in shifts:
            fam = fams.Fam(name, (sa * dR, sb * dZ), sg)
            psi = fam.f(R2, Z2)
            ref = interp.SplineRef(R1, Z1, psi)
            exp = [dict(c, R=c["R"] + sa * dR, Z=c["Z"] + sb * dZ, psi=sg * c["psi"]) for c in cps0]
            for c in exp:
                _, _, frr, fzz, frz = fam.derivs(c["R"], c["Z"])
                H = np.array([[float(frr), float(frz)], [float(frz), float(fzz)]])
                c["smin"] = float(np.min(np.abs(np.linalg.eigvalsh(H))))
                c["smax"] = float(np.max(np.abs(np.linalg.eigvalsh(H))))
            for (atol, maxits) in task["atols"]:
                st["cases"] += 1
                case = dict(family=name, res=[nR, nZ], sign=sg, shift=[sa, sb], atol=atol, maxits=maxits)
                with contextlib.redirect_stdout(io.StringIO()):
                    try:
                        op, xp = critical.find_critical(R2.copy(), Z2.copy(), psi.copy(), atol, maxits)
                    except Exception as e:
                        viol.append(("find_critical | raises", dict(case, error=repr(e)[:300]), case))
                        continue
                _judge_fc(case, fam, ref, exp, op, xp, (dR, dZ), (Rmin, Rmax, Zmin, Zmax), viol, st)
                if st["sample"] is None and sa == 0.25:
                    st["sample"] = dict(case, opoints=[list(map(float, o)) for o in op],
                                        xpoints=[list(map(float, x)) for x in xp])
    return dict(task=task, viol=viol, stats=st)


def _judge_fc(case, fam, ref, exp, op, xp, cell, dom, viol, st):
    dR, dZ = cell
    atol = case["atol"]
    scale = max(abs(c["psi"]) for c in exp) if fam.wmin else 1.0
    wmin = fam.wmin
    got = [dict(R=float(p[0]), Z=float(p[1]), psi=float(p[2]), kind=k) for k, lst in (("O", op), ("X", xp))
           for p in lst]
    st["points"] += len(exp)

    def add(sig, **d):
        viol.append(("find_critical | " + sig, dict(case, **d), case))

    # -- each analytic point returned exactly once, nothing else returned
    used = set()
    for c in exp:
        aniso = max(1.0, POS_ANISO * c["smax"] / c["smin"])
        tol_pos = 1.5 * np.sqrt(atol) * dom[1] / c["smin"] + POS_INTERP_CELLS * aniso * np.hypot(dR, dZ)
        near = [k for k, g in enumerate(got) if np.hypot(g["R"] - c["R"], g["Z"] - c["Z"]) < 3 * np.hypot(dR, dZ)]
        if not near:
            tie = _tie_diagnosis(ref, c, cell)
            add("%s-point not returned%s" % (c["kind"], " | exact tie of Bp^2 between neighbouring nodes" if tie else ""),
                expected=c, returned=got)
            continue
        if len(near) > 1:
            # diagnosis for the signature only: are all copies inside the ball that atol
            # permits (|grad psi|/R < sqrt(atol)) and merely farther apart than the code's
            # fixed de-duplication distance sqrt(1e-5) m ?
            dups = [got[k] for k in near]
            within = all(float(sum(np.square(ref.grad(g["R"], g["Z"]))) / g["R"] ** 2) < atol for g in dups)
            apart = min(np.hypot(a["R"] - b["R"], a["Z"] - b["Z"]) for ia, a in enumerate(dups) for b in dups[ia + 1:])
            qual = (" | copies each within atol, farther apart than the fixed 3.2 mm de-duplication radius"
                    if within and apart >= np.sqrt(1e-5) else "")
            add("%s-point returned more than once%s" % (c["kind"], qual), expected=c, returned=dups,
                min_distance_between_copies=float(apart))
        g = got[near[0]]
        used.update(near)
        d = float(np.hypot(g["R"] - c["R"], g["Z"] - c["Z"]))
        st["worst_pos"] = max(st["worst_pos"], d / tol_pos)
        if atol <= 1e-10:
            # in units of the interpolation allowance (what the calibration refers to)
            st["worst_pos_model"] = max(st["worst_pos_model"], d / (POS_INTERP_CELLS * aniso * np.hypot(dR, dZ)))
            st["worst_pos_cells_tight"] = max(st["worst_pos_cells_tight"],
                                              float(np.hypot((g["R"] - c["R"]) / dR, (g["Z"] - c["Z"]) / dZ)))
        if d > tol_pos:
            add("position differs from the analytic %s-point" % c["kind"], expected=c, returned=g, dist=d, tol=tol_pos)
        if g["kind"] != c["kind"]:
            add("analytic %s-point classified as %s" % (c["kind"], g["kind"]), expected=c, returned=g)
        # residual at the returned position on the checker's interpolant
        gR, gZ = ref.grad(g["R"], g["Z"])
        res = float((gR**2 + gZ**2) / g["R"] ** 2)
        st["worst_res"] = max(st["worst_res"], res / atol)
        if not res < atol * RES_SLACK:
            add("residual Bp^2 at returned position >= atol", returned=g, residual=res)
        # psi returned = interpolant at that position; close to the analytic value
        pv = float(ref.psi(g["R"], g["Z"]))
        if abs(pv - g["psi"]) > 1e-12 * max(scale, 1.0):
            add("returned psi is not psi at the returned position", returned=g, psi_ref=pv)
        if wmin is not None:
            tol_psi = PSI_C * (max(dR, dZ) / wmin) ** 4 * scale + c["smax"] * tol_pos**2
        else:
            tol_psi = 1e-10 + 2.0 * tol_pos**2
        st["worst_psi"] = max(st["worst_psi"], abs(g["psi"] - c["psi"]) / tol_psi)
        if abs(g["psi"] - c["psi"]) > tol_psi:
            add("psi at %s-point differs from analytic" % c["kind"], expected=c, returned=g, tol=tol_psi)
    extra = [g for k, g in enumerate(got) if k not in used]
    if extra:
        add("returned a point that is no critical point of the function", spurious=extra, expected=exp)
    # -- primary O-point: nearest the centre of the domain
    eo = [c for c in exp if c["kind"] == "O"]
    go = [g for g in got if g["kind"] == "O"]
    cen = (0.5 * (dom[0] + dom[1]), 0.5 * (dom[2] + dom[3]))
    if eo and go:
        prim = min(eo, key=lambda c: np.hypot(c["R"] - cen[0], c["Z"] - cen[1]))
        if np.hypot(go[0]["R"] - prim["R"], go[0]["Z"] - prim["Z"]) > 3 * np.hypot(dR, dZ):
            add("primary O-point is not the one nearest the domain centre", expected_primary=prim, returned_first=go[0])
        # -- X-points ordered by |psi - psi_axis|
        gx = [g for g in got if g["kind"] == "X"]
        ex = [c for c in exp if c["kind"] == "X"]
        if len(gx) == len(ex) and len(gx) > 1:
            ex_sorted = sorted(ex, key=lambda c: abs(c["psi"] - prim["psi"]))
            gaps = [abs(ex_sorted[k + 1]["psi"] - prim["psi"]) - abs(ex_sorted[k]["psi"] - prim["psi"])
                    for k in range(len(ex) - 1)]
            if min(gaps) < ORDER_GAP * scale:
                st["order_skipped"] += 1
            else:
                for k in range(len(ex)):
                    if np.hypot(gx[k]["R"] - ex_sorted[k]["R"], gx[k]["Z"] - ex_sorted[k]["Z"]) > 3 * np.hypot(dR, dZ):
                        add("X-points not ordered by |psi - psi_axis|", expected_order=ex_sorted, returned=gx)
                        break


def _tie_diagnosis(ref, c, cell):
    """is the candidate test of the code undecidable here: are the two smallest values of
    Bp^2 among the nodes surrounding the point exactly equal?  (diagnosis for the signature
    only; plays no role in the verdict)"""
    R1, Z1 = ref.R1D, ref.Z1D
    i = int(np.clip(np.searchsorted(R1, c["R"]) - 1, 1, len(R1) - 3))
    j = int(np.clip(np.searchsorted(Z1, c["Z"]) - 1, 1, len(Z1) - 3))
    vals = []
    for a in range(i - 1, i + 3):
        for b in range(j - 1, j + 3):
            gR, gZ = ref.grad(R1[a], Z1[b])
            vals.append(float((gR**2 + gZ**2) / R1[a] ** 2))
    vals.sort()
    return vals[0] == vals[1]


# ============================ part B: single / double null, legs ============================
EQ_GEOMS = ["lsn", "usn", "cdn", "ldn", "udn", "ldn2", "udn2"]


def _point_in_polygon(pt, poly):
    x, y = pt
    inside = False
    n = len(poly)
    for k in range(n):
        (x1, y1), (x2, y2) = poly[k], poly[(k + 1) % n]
        if (y1 > y) != (y2 > y):
            if x < x1 + (y - y1) * (x2 - x1) / (y2 - y1):
                inside = not inside
    return inside


def _wall(name, xs_ref):
    """W0, W4 of vlib.families plus two walls whose top edge passes 1e-5 m above / below the
    upper X-point of the reference interpolant"""
    if name in ("W0", "W4"):
        return vfam.wall_points(name)
    if name.startswith("W4:"):
        # the same polygon described from every starting vertex, in both directions, and its
        # mirror image: which edge is the implied closing segment must not matter
        _, rot, winding, *m = name.split(":")
        w = vfam.wall_points("W4", mirror=bool(m))
        if winding == "rev":
            w = w[::-1]
        k = int(rot)
        return w[k:] + w[:k]
    up = max(xs_ref, key=lambda x: x[1])
    top = up[1] + (1e-5 if name == "Wx+" else -1e-5)
    return [(1.2, -0.5), (1.8, -0.5), (1.8, top), (1.2, top)]


def _ref_points(geom, sigma, nR, nZ):
    tilt = 0.0
    if "@" in geom:
        # "lsn@35": the family member rotated by 35 degrees about the magnetic axis (1.5, 0): the
        # X-point is no longer below the axis, and both strike points can lie on one side of it
        geom, t_ = geom.split("@")
        tilt = np.deg2rad(float(t_))
    f0 = vfam.psi_analytic(geom, sigma)
    c_, s_ = np.cos(tilt), np.sin(tilt)
    if tilt:
        def f(R, Z):
            R = np.asarray(R, dtype=float)
            Z = np.asarray(Z, dtype=float)
            return f0(1.5 + c_ * (R - 1.5) + s_ * Z, -s_ * (R - 1.5) + c_ * Z)
    else:
        f = f0
    R1, Z1 = np.linspace(1.0, 2.0, nR), np.linspace(-0.7, 0.7, nZ)
    R2, Z2 = np.meshgrid(R1, Z1, indexing="ij")
    psi = f(R2, Z2)
    ref = interp.SplineRef(R1, Z1, psi)
    o, xs = vfam.axis_and_separatrices(f0)
    if tilt:
        def rot(p):
            q = dict(p)
            q["R"], q["Z"] = 1.5 + c_ * (p["R"] - 1.5) - s_ * p["Z"], s_ * (p["R"] - 1.5) + c_ * p["Z"]
            return q
        o, xs = rot(o), [rot(x) for x in xs]
    ro = interp.newton_critical(ref, o["R"], o["Z"])
    pax = float(ref.psi(*ro))
    xr = []
    for x in xs:
        p = interp.newton_critical(ref, x["R"], x["Z"])
        xr.append((p[0], p[1], float(ref.psi(*p))))
    xr.sort(key=lambda p: abs(p[2] - pax))
    return R1, Z1, psi, ref, ro, pax, xr


def eq_ladder(psin2):
    """psinorm_sol values: below 1 (no X-point qualifies), between the separatrices, +-1e-3,
    +-1e-6 about the secondary X-point's normalised psi, and beyond.  Every value is used twice:
    as the option psinorm_sol, and converted to flux as the options psi_sol/psi_sol_inner with
    psinorm_sol set to a decoy on the other side of the deciding X-point."""
    lad = [1.0 - 1e-6]
    if psin2 is None:
        return lad + [1.0 + 1e-6, 1.001, 1.02, 1.1, 1.3]
    g = psin2 - 1.0
    if g > 1e-5:
        lad.append(1.0 + 0.5 * g)
    if g > 2e-3:
        lad.append(psin2 - 1e-3)
    if g > 2e-6:
        lad.append(psin2 - 1e-6)
    lad += [max(psin2, 1.0) + 1e-6, max(psin2, 1.0) + 1e-3, psin2 + 0.02, psin2 + 0.1, psin2 + 0.3]
    return lad


class _DecisionOnly(Exception):
    pass


class _Timeout(Exception):
    pass


def _alarm(signum, frame):
    raise _Timeout()


# a normal case takes 0.1-0.3 s
EQ_CASE_TIMEOUT_S = 30


def _stop_here(*a, **k):
    raise _DecisionOnly()


def eq_task(task):
    from hypnotoad.cases import tokamak

    warnings.simplefilter("ignore")
    np.seterr(all="ignore")
    geom, sigma, (nR, nZ) = task["geom"], task["sigma"], task["res"]
    R1, Z1, psi, ref, ro, pax, xr = _ref_points(geom, sigma, nR, nZ)
    psin = [(x[2] - pax) / (xr[0][2] - pax) for x in xr]
    s = np.linspace(0.0, 1.0, 33)
    psi1 = pax + s * (xr[0][2] - pax)
    viol, st = [], dict(cases=0, refused=0, single=0, double=0, none=0, legs=0, worst_strike=0.0,
                        worst_xpos=0.0, sample=None, legs_skipped_xpoint_at_wall=0, decision_only=0, timeouts=0)
    for wname in task["walls"]:
        if wname.startswith("Wx") and len(xr) < 2:
            continue  # these walls cut next to the *second* X-point
        wall = _wall(wname, xr)
        inside = [_point_in_polygon((x[0], x[1]), wall) for x in xr]
        psin2 = psin[1] if len(psin) > 1 else None
        ladder = [(sol, via) for via in task.get("vias", ("psinorm_sol", "psi_sol"))
                  for sol in (task.get("sols") or eq_ladder(psin2))]
        for sol, via in ladder:
            st["cases"] += 1
            case = dict(geom=geom, sigma=sigma, res=[nR, nZ], wall=wname, psinorm_sol=sol, via=via)
            keep = [k for k in range(len(xr)) if psin[k] < sol and inside[k]]
            settings = dict(xpoint_refine_atol=1e-12, nx_inter_sep=1 if (
                len(xr) > 1 and abs(psin[1] - 1.0) > 1e-9) else 0)
            if via == "psinorm_sol":
                settings["psinorm_sol"] = sol
            else:
                # the same SOL edge given as raw flux (documented to override psinorm_sol), with
                # psinorm_sol left on the *other* side of the X-point that sol decides about
                # (the secondary one, or the only one): a decision taken from psinorm_sol shows
                pivot = psin2 if (psin2 is not None and sol > 1.0) else 1.0
                if sol > pivot:
                    decoy = 1.0 + 0.5 * (pivot - 1.0) if pivot - 1.0 > 1e-5 else 0.99
                else:
                    decoy = pivot + 0.1
                psi_sol = pax + sol * (xr[0][2] - pax)
                settings.update(psinorm_sol=decoy, psi_sol=psi_sol, psi_sol_inner=psi_sol)
                case["psinorm_sol_option"] = decoy
            exc = None
            with contextlib.redirect_stdout(io.StringIO()):
                eq = tokamak.TokamakEquilibrium(R1.copy(), Z1.copy(), psi.copy(), psi1.copy(), 2.0 + 0.3 * s,
                                                wall=[tuple(p) for p in wall], make_regions=False,
                                                settings=settings)
                nfound = len(eq.x_points)
                if wname.startswith("Wx"):
                    # an X-point 1e-5 m from the wall: only the topology decision is of
                    # interest (tracing legs that start outside the wall takes a minute and
                    # means nothing), so stop makeRegions at its first use of the kept X-points
                    eq.findLegs = _stop_here
                # watchdog: a leg that never meets the wall would be traced for ever
                signal.signal(signal.SIGALRM, _alarm)
                signal.alarm(EQ_CASE_TIMEOUT_S)
                try:
                    eq.makeRegions()
                except _DecisionOnly:
                    exc = _DecisionOnly()
                except _Timeout:
                    exc = _Timeout()
                    st["timeouts"] += 1
                except Exception as e:  # refusals are explicit errors; the decision is still visible
                    exc = e
                finally:
                    signal.alarm(0)
            filtered = isinstance(eq.x_points, tuple)
            info = dict(case, expected_kept=[list(xr[k]) for k in keep], psinorm_xpoints=psin, inside_wall=inside,
                        error=None if exc is None else repr(exc)[:200])

            def add(sig, **d):
                if via == "psi_sol":
                    sig += " | SOL edge given as psi_sol"
                viol.append(("equilibrium | " + sig, dict(info, **d), case))

            if nfound != len(xr):
                add("constructor found a different number of X-points", found=nfound)
                continue
            if not keep:
                st["none"] += 1
                if exc is None:
                    add("no X-point qualifies but regions were made", regions=list(eq.regions))
                continue
            if not filtered:
                add("X-points qualify but makeRegions failed before selecting them")
                continue
            kept = [(p.R, p.Z) for p in eq.x_points]
            match = len(kept) == len(keep) and all(
                np.hypot(kept[k][0] - xr[keep[k]][0], kept[k][1] - xr[keep[k]][1]) < 1e-6 for k in range(len(kept)))
            if match:
                st["worst_xpos"] = max(st["worst_xpos"], max(
                    float(np.hypot(kept[k][0] - xr[keep[k]][0], kept[k][1] - xr[keep[k]][1])) for k in range(len(kept))))
            if not match:
                add("%s expected, %d X-points kept" % ("single null" if len(keep) == 1 else "double null", len(kept)),
                    kept=kept)
                continue
            st["single" if len(keep) == 1 else "double"] += 1
            if isinstance(exc, _DecisionOnly):
                st["decision_only"] += 1
                continue
            if exc is not None:
                st["refused"] += 1
                continue
            want = 3 if len(keep) == 1 else 6
            if len(eq.regions) != want:
                add("%d X-points kept but %d regions" % (len(keep), len(eq.regions)), regions=list(eq.regions))
                continue
            _judge_legs(eq, ref, wall, [xr[k] for k in keep], ro, add, st)
            if st["sample"] is None:
                st["sample"] = dict(case, kept=kept, regions=list(eq.regions))
    return dict(task=task, viol=viol, stats=st)


def _wall_roots(ref, wall, level):
    """all points of the wall polygon where the reference psi equals level"""
    from scipy.optimize import brentq

    roots = []
    n = len(wall)
    for k in range(n):
        a, b = np.array(wall[k]), np.array(wall[(k + 1) % n])
        t = np.linspace(0.0, 1.0, 801)
        v = ref.psi(a[0] + t * (b[0] - a[0]), a[1] + t * (b[1] - a[1])) - level
        for m in range(len(t) - 1):
            if v[m] == 0.0 or v[m] * v[m + 1] < 0:
                tt = brentq(lambda q: float(ref.psi(a[0] + q * (b[0] - a[0]), a[1] + q * (b[1] - a[1])) - level),
                            t[m], t[m + 1], xtol=1e-14)
                roots.append(tuple(a + tt * (b - a)))
    return roots


# the code traces a leg in steps of 0.01 m and intersects the last chord with the wall:
# the strike point is exact to (curvature x step^2 / 8) ~ 1e-5 m; observed <= 2e-5 - granted 1e-3
STRIKE_TOL = 1e-3


def _dist_to_wall(pt, wall):
    d = np.inf
    p = np.array(pt[:2])
    for k in range(len(wall)):
        a, b = np.array(wall[k]), np.array(wall[(k + 1) % len(wall)])
        t = np.clip(np.dot(p - a, b - a) / np.dot(b - a, b - a), 0.0, 1.0)
        d = min(d, float(np.hypot(*(p - a - t * (b - a)))))
    return d


def _judge_legs(eq, ref, wall, xkept, ro, add, st):
    for x in xkept:
        if _dist_to_wall(x, wall) < 0.03:
            # findLegs starts the legs on a circle of radius 0.01 m about the X-point: an
            # X-point this close to the wall has no legs to speak of (walls Wx+-); only the
            # topology decision is judged there
            st["legs_skipped_xpoint_at_wall"] = st.get("legs_skipped_xpoint_at_wall", 0) + 1
            continue
        side = "lower" if x[1] < ro[1] else "upper"
        names = {"inner": "inner_%s_divertor" % side, "outer": "outer_%s_divertor" % side}
        if any(nm not in eq.regions for nm in names.values()):
            add("leg regions missing for the %s X-point" % side, regions=list(eq.regions))
            continue
        roots = sorted(_wall_roots(ref, wall, x[2]), key=lambda p: np.hypot(p[0] - x[0], p[1] - x[1]))[:2]
        if len(roots) < 2:
            continue
        roots.sort(key=lambda p: p[0])  # reference: inner = smaller major radius
        strike = {}
        for io_, nm in names.items():
            pts = [(p.R, p.Z) for p in eq.regions[nm]]
            # the end of the leg away from the X-point
            strike[io_] = max((pts[0], pts[-1]), key=lambda p: np.hypot(p[0] - x[0], p[1] - x[1]))
        st["legs"] += 2
        for io_, want in (("inner", roots[0]), ("outer", roots[1])):
            d = float(np.hypot(strike[io_][0] - want[0], strike[io_][1] - want[1]))
            if d > STRIKE_TOL:
                other = roots[1] if io_ == "inner" else roots[0]
                swapped = np.hypot(strike[io_][0] - other[0], strike[io_][1] - other[1]) < STRIKE_TOL
                add("legs | %s leg %s" % (io_, "ends at the other leg's strike point (inner/outer swapped)"
                                         if swapped else "does not end where the separatrix meets the wall"),
                    side=side, strike=strike[io_], expected=want, dist=d)
            else:
                st["worst_strike"] = max(st["worst_strike"], d / STRIKE_TOL)
        if not strike["inner"][0] < strike["outer"][0]:
            add("legs | inner strike point has the larger major radius", side=side, strike=strike)


# ============================ part C: findSaddlePoint ========================================
# (family, angle of the box edge p1->p2 against the R axis in degrees)
SADDLE_BOXES = [("X1", 90.0), ("X1", 78.0), ("X1", 101.0), ("XY", 45.0), ("XY", 48.0)]
# "atol is the tolerance on the position of the saddle point": observed <= 0.9 atol; the
# alternating searches stop when their two estimates are within atol, the mean is returned;
# with oblique level lines the mean can be off by a small multiple - granted 10 atol
SADDLE_TOL = 10.0


def sp_task(task):
    from hypnotoad.core.equilibrium import Equilibrium, Point2D

    class _Bare(Equilibrium):
        pass

    warnings.simplefilter("ignore")
    np.seterr(all="ignore")
    name, theta, method, (nR, nZ) = task["family"], task["theta"], task["method"], task["res"]
    Rmin, Rmax, Zmin, Zmax = fams.DOMAIN
    R1, Z1 = np.linspace(Rmin, Rmax, nR), np.linspace(Zmin, Zmax, nZ)
    dR, dZ = R1[1] - R1[0], Z1[1] - Z1[0]
    R2, Z2 = np.meshgrid(R1, Z1, indexing="ij")
    viol, st = [], dict(cases=0, refused=0, worst=0.0, sample=None)
    th = np.radians(theta)
    e1 = np.array([np.cos(th), np.sin(th)])
    e2 = np.array([e1[1], -e1[0]])
    A = 0.3
    for sg in (1.0, -1.0):
        for (sa, sb) in task["shifts"]:
            fam = fams.Fam(name, (sa * dR, sb * dZ), sg)
            psi = fam.f(R2, Z2)
            eq = _Bare.__new__(_Bare)
            eq.magneticFunctionsFromGrid(R1.copy(), Z1.copy(), psi.copy(), method)
            ref = (interp.SplineRef if method == "spline" else interp.DCTRef)(R1, Z1, psi)
            rs = interp.newton_critical(ref, fam.c[0], fam.c[1])
            cen = np.array(fam.c) + np.array([0.02, -0.03])
            q1 = cen - 0.5 * A * (e1 + e2)
            q2 = q1 + A * e1
            for atol in (2e-8, 1e-6):
                st["cases"] += 1
                case = dict(family=name, theta=theta, method=method, res=[nR, nZ], sign=sg, shift=[sa, sb], atol=atol)
                try:
                    with contextlib.redirect_stdout(io.StringIO()):
                        p = eq.findSaddlePoint(Point2D(*q1), Point2D(*q2), atol)
                except Exception:
                    st["refused"] += 1
                    continue
                d = float(np.hypot(p.R - rs[0], p.Z - rs[1]))
                st["worst"] = max(st["worst"], d / (SADDLE_TOL * atol))
                if st["sample"] is None:
                    st["sample"] = dict(case, returned=[p.R, p.Z], reference=list(rs))
                if not d <= SADDLE_TOL * atol:
                    viol.append(("findSaddlePoint | returned position is not the saddle of psi | %s" % method,
                                 dict(case, returned=[p.R, p.Z], reference=list(rs), dist=d), case))
    return dict(task=task, viol=viol, stats=st)


# ============================ driver ========================================================
def shifts_for(seed, tier="quick"):
    """sub-cell shifts (in cells): quick {0,1/4,1/2,3/4}^2, thorough {0,1/8,...,7/8}^2; plus the
    same lattice displaced by the seed's pre-declared phase (eighths in quick, sixteenths in
    thorough)"""
    sub = SUB if tier == "quick" else tuple(k / 8.0 for k in range(8))
    ph = SEED_PHASES[seed % 8]
    if tier != "quick":
        ph = (ph[0] / 2.0 if ph[0] else 0.0, ph[1] / 2.0 if ph[1] else 0.0)
    base = [(a, b) for a in sub for b in sub]
    return base + [(a + ph[0], b + ph[1]) for a in sub for b in sub]


def tasks_for(tier, seed):
    sh = shifts_for(seed, tier)
    sh_sp = shifts_for(seed)
    A = []
    for name in fams.names():
        for res in resolutions(tier):
            if min(res) < fams.MIN_POINTS.get(name, 0):
                continue
            A.append(dict(kind="fc", family=name, res=list(res), shifts=sh, signs=[1.0, -1.0], atols=ATOLS))
    # the elliptical hills: quick tier on the coarsest and on the non-square grid with the tests'
    # atol; thorough tier the full product
    # (on the larger elongation x tilt lattice, four resolutions, both atol, the quick tier's 32
    # sub-cell shifts)
    ell_res = [(33, 33), (65, 97)] if tier == "quick" else [(33, 33), (65, 97), (64, 64), (129, 129)]
    ell_atols = ATOLS[:1] if tier == "quick" else ATOLS
    for name in ell_families(tier):
        for res in ell_res:
            A.append(dict(kind="fc", family=name, res=list(res), shifts=sh_sp, signs=[1.0, -1.0], atols=ell_atols))
    B = []
    eq_res = [(65, 65)] if tier == "quick" else [(65, 65), (33, 65), (129, 129)]
    walls = ["W0", "W4", "Wx+", "Wx-"]
    walls += ["W4:%d:%s" % (k, wd) for k in range(4) for wd in ("fwd", "rev") if (k, wd) != (0, "fwd")]
    walls += ["W4:%d:fwd:m" % k for k in range(4)]
    for geom in EQ_GEOMS:
        for sigma in (1.0, -1.0):
            for res in eq_res:
                B.append(dict(kind="eq", geom=geom, sigma=sigma, res=list(res), walls=walls))
    # tilted single nulls: both strike points on the same side of the magnetic axis in one of
    # the two (inner/outer is decided by the strike points' major radii, not by the axis)
    for geom in ("lsn@35", "lsn@-35", "usn@35", "usn@-35"):
        for sigma in (1.0, -1.0):
            B.append(dict(kind="eq", geom=geom, sigma=sigma, res=[65, 65], walls=["W0"]))
    C = []
    sp_res = [(33, 33), (65, 97)] if tier == "quick" else [(33, 33), (65, 97), (129, 129)]
    for (name, theta) in SADDLE_BOXES:
        for method in ("spline", "dct"):
            for res in sp_res:
                if method == "dct" and res[0] > 65:
                    continue
                C.append(dict(kind="sp", family=name, theta=theta, method=method, res=list(res), shifts=sh_sp))
    return A, B, C


_WORK = {"fc": fc_task, "eq": eq_task, "sp": sp_task}


def _work(task):
    return _WORK[task["kind"]](task)


def run(ctx, only=None):
    A, B, C = tasks_for(ctx.tier, ctx.seed)
    tasks = A + B + C if only is None else only
    k = ctx.seed % max(1, len(tasks))
    tasks = tasks[k:] + tasks[:k]  # the seed only rotates the work order
    tasks.sort(key=lambda t: -(t["res"][0] * t["res"][1]))
    nproc = min(16, os.cpu_count() or 1, len(tasks))
    if nproc > 1 and len(tasks) > 2:
        with cf.ProcessPoolExecutor(nproc) as ex:
            results = list(ex.map(_work, tasks, chunksize=1))
    else:
        results = [_work(t) for t in tasks]
    tot = dict(fc=dict(cases=0, points=0, order_skipped=0), eq=dict(cases=0, refused=0, single=0, double=0, none=0, legs=0, legs_skipped_xpoint_at_wall=0, decision_only=0, timeouts=0),
               sp=dict(cases=0, refused=0))
    for r in results:
        kind = r["task"]["kind"]
        for sig, detail, case in r["viol"]:
            ctx.violation(sig, detail, replay=dict(kind=kind, task=r["task"], case=case))
        s = r["stats"]
        for key in tot[kind]:
            tot[kind][key] += s[key]
        if kind == "fc":
            ctx.setmax("worst_position_error_over_tolerance", s["worst_pos"])
            ctx.setmax("worst_residual_over_atol", s["worst_res"])
            ctx.setmax("worst_psi_error_over_tolerance", s["worst_psi"])
            ctx.setmax("worst_position_error_cells_at_tight_atol", s["worst_pos_cells_tight"])
            ctx.setmax("worst_position_error_over_interpolation_allowance_at_tight_atol", s["worst_pos_model"])
        elif kind == "eq":
            ctx.setmax("worst_strike_point_distance_over_tolerance", s["worst_strike"])
            ctx.setmax("worst_kept_xpoint_distance_m", s["worst_xpos"])
        else:
            ctx.setmax("worst_saddle_distance_over_tolerance", s["worst"])
        if s.get("sample"):
            ctx.sample(s["sample"], limit=6)
    n_eval = tot["fc"]["cases"] + tot["eq"]["cases"] + tot["sp"]["cases"]
    nontrivial = (tot["fc"]["cases"] + tot["eq"]["single"] + tot["eq"]["double"] + tot["eq"]["none"]
                  + tot["sp"]["cases"] - tot["sp"]["refused"])
    ctx.set("evaluations", n_eval)
    ctx.set("distinct_nontrivial", nontrivial)
    ctx.set("rule", "A: one case = (family, resolution, sign, sub-cell shift, atol) - one call of find_critical, "
            "every family has >= 1 critical point inside the searched interior, all are judged; B: one case = "
            "(geometry, sign, resolution, wall, psinorm_sol) - one TokamakEquilibrium + makeRegions, non-trivial "
            "when the topology decision was reached (0, 1 or 2 X-points kept; a later refusal by region "
            "construction is counted in eq_refused_after_decision, the decision itself is still judged); C: one "
            "call of findSaddlePoint, non-trivial unless the code refuses the box")
    ctx.set("exhaustive", only is None)
    ctx.set("families", fams.names() + ell_families(ctx.tier))
    ctx.set("resolutions", [list(r) for r in resolutions(ctx.tier)])
    ctx.set("subcell_shifts", len(shifts_for(ctx.seed, ctx.tier)))
    ctx.set("seed_phase", list(SEED_PHASES[ctx.seed % 8]))
    ctx.set("find_critical_calls", tot["fc"]["cases"])
    ctx.set("critical_points_judged", tot["fc"]["points"])
    ctx.set("xpoint_order_not_judged_equal_psi", tot["fc"]["order_skipped"])
    ctx.set("eq_cases", tot["eq"]["cases"])
    ctx.set("eq_expected_single_null", tot["eq"]["single"])
    ctx.set("eq_expected_double_null", tot["eq"]["double"])
    ctx.set("eq_expected_no_xpoint", tot["eq"]["none"])
    ctx.set("eq_refused_after_decision", tot["eq"]["refused"])
    ctx.set("eq_decision_only_cases_wall_at_xpoint", tot["eq"]["decision_only"])
    ctx.set("eq_timeouts", tot["eq"]["timeouts"])
    ctx.set("legs_judged", tot["eq"]["legs"])
    ctx.set("legs_skipped_xpoint_at_wall", tot["eq"]["legs_skipped_xpoint_at_wall"])
    ctx.set("saddle_calls", tot["sp"]["cases"])
    ctx.set("saddle_refused", tot["sp"]["refused"])
    ctx.assume("X-points hidden behind another O-point (psi not monotonic from the primary O-point) are outside "
               "the families: the code's monotonicity filter drops them by design")


def replay(ctx, payload):
    p = payload["replay"]
    t = dict(p["task"])
    c = p["case"]
    if t["kind"] == "fc":
        t.update(shifts=[tuple(c["shift"])], signs=[c["sign"]], atols=[(c["atol"], c["maxits"])])
    elif t["kind"] == "eq":
        t.update(walls=[c["wall"]], sols=[c["psinorm_sol"]], vias=[c.get("via", "psinorm_sol")])
    else:
        t.update(shifts=[tuple(c["shift"])])
    run(ctx, only=[t])
