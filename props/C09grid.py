"""C09 (grid part): dx equals the psi difference between the x-faces of each cell, judged on
every corpus grid from the regions' own arrays and the file."""

import numpy as np

from vlib import gridutil as gu


def run(ctx, arts=None):
    if arts is None:
        arts = gu.select(ctx.tier, log=ctx.log)
    n = cells = 0
    for a in gu.rotate(arts, ctx.seed):
        if not a.ok:
            continue
        opts = a.side["mesh"]["user_options"]
        atol = float(opts.get("refine_atol", 2e-8))
        scale = gu.psi_scale(a)
        tol = 10 * atol * max(1.0, scale)
        mode = "orth" if opts.get("orthogonal", True) else "nonorth"
        regs = {r["myID"]: r for r in a.side["regions"]}
        n += 1
        for reg in a.side["regions"]:
            A = reg["arrays"]
            pv = reg["psi_vals"]
            d = np.diff(pv)
            if not (np.all(d > 0) or np.all(d < 0)):
                ctx.violation("grid | psi_vals of a region not strictly monotone", dict(config=a.config["label"], region=reg["name"]),
                              replay=dict(part="grid", config=a.config))
            dx, ps = A["dx"], A["psixy"]
            # centre and ylow: difference of psi at the two x-faces (exact in psi_vals, and to
            # the refinement tolerance in the psi stored at the face points)
            want = (pv[2::2] - pv[:-2:2])[:, None]
            for loc, face in (("centre", "xlow"), ("ylow", "corners")):
                cells += dx[loc].size
                if np.max(np.abs(dx[loc] - want)) > 1e-14 * max(1.0, scale):
                    ctx.violation("%s | dx differs from the psi difference of the cell's x-faces (psi grid) | %s" % (mode, loc),
                                  dict(config=a.config["label"], region=reg["name"]), replay=dict(part="grid", config=a.config))
                got = ps[face][1:, :] - ps[face][:-1, :]
                dom = gu.in_domain(a, A["Rxy"][loc], A["Zxy"][loc])
                pin = np.zeros(got.shape, bool)
                if face == "corners":
                    p, _ = gu.pinned_corner_mask(reg)
                    pin = p[1:, :] | p[:-1, :]
                err = np.where(dom & ~pin, np.abs(dx[loc] - got), 0.0)
                if err.max() > tol:
                    ctx.violation("%s | dx differs from psixy at the x-faces | %s" % (mode, loc),
                                  dict(config=a.config["label"], region=reg["name"], residual=float(err.max()), tol=tol),
                                  replay=dict(part="grid", config=a.config))
            # xlow and corners: psi difference between the neighbouring cell centres (twice the
            # face-to-centre difference at a radial boundary)
            wx = np.zeros(reg["nx"] + 1)
            wx[1:-1] = pv[3::2] - pv[1:-2:2]
            inn, out = reg["connections"]["inner"], reg["connections"]["outer"]
            wx[0] = pv[1] - regs[inn]["psi_vals"][-2] if inn is not None else 2 * (pv[1] - pv[0])
            wx[-1] = regs[out]["psi_vals"][1] - pv[-2] if out is not None else 2 * (pv[-1] - pv[-2])
            for loc in ("xlow", "corners"):
                if loc not in dx:
                    ctx.violation("%s | dx not defined at %s" % (mode, loc), dict(config=a.config["label"], region=reg["name"]),
                                  replay=dict(part="grid", config=a.config))
                    continue
                cells += dx[loc].size
                if np.max(np.abs(dx[loc] - wx[:, None])) > 1e-14 * max(1.0, scale):
                    ctx.violation("%s | dx at %s differs from the psi difference of the neighbouring cell centres" % (mode, loc),
                                  dict(config=a.config["label"], region=reg["name"]), replay=dict(part="grid", config=a.config))
        # the file carries the same numbers
        nc = a.nc
        for reg in a.side["regions"]:
            (x0, x1), (y0, y1) = reg["xslice"], reg["yslice"]
            for suf, loc in (("", "centre"), ("_ylow", "ylow"), ("_xlow", "xlow")):
                blk = nc["dx" + suf][x0:x1, y0:y1]
                src = reg["arrays"]["dx"].get(loc)
                if src is None:
                    continue
                src = src[:reg["nx"], :reg["ny"]]
                if not np.array_equal(blk, src):
                    ctx.violation("file | dx%s in the file differs from the region's dx" % suf,
                                  dict(config=a.config["label"], region=reg["name"]), replay=dict(part="grid", config=a.config))
    ctx.add("grid_evaluations", n)
    ctx.add("grid_distinct_nontrivial", n)
    ctx.add("grid_cells_judged", cells)
    ctx.set("grid_rule", "every successful member of the corpus lattice; every cell's dx at all four locations")
    ctx.set("grid_exhaustive", True)


def replay(ctx, payload):
    from vlib import corpus

    run(ctx, corpus.ensure([payload["replay"]["config"]], log=ctx.log))
