#!/venv/bin/python
"""Entry point:  /venv/bin/python vcheck.py <ID> [--tier quick|thorough] [--replay PATH]

exit 0  property held on everything explored (KNOWN-FINDING lines may be printed)
exit 1  + "VIOLATION property=<id> replay=<path>"
exit 2  + "HARNESS-ERROR ..." (a bug of the machinery or an unimportable repository)
"""

import argparse
import importlib
import json
import os
import sys
import traceback

HERE = os.path.dirname(os.path.abspath(__file__))
sys.path.insert(0, HERE)
os.environ.setdefault("MPLBACKEND", "Agg")
os.environ.setdefault("PYTHONHASHSEED", "0")
os.environ.setdefault("HYPNOTOAD_VERIF", "1")
# numerical libraries must not oversubscribe: we parallelise over executions
for _v in ("OMP_NUM_THREADS", "OPENBLAS_NUM_THREADS", "MKL_NUM_THREADS"):
    os.environ.setdefault(_v, "1")

from vlib import core  # noqa: E402

LEVELS = {
    "C08": "model_checking",
    "C13": "model_checking",
    "C15": "model_checking",
}


def main():
    ap = argparse.ArgumentParser()
    ap.add_argument("pid")
    ap.add_argument("--tier", default="quick", choices=["quick", "thorough"])
    ap.add_argument("--replay", default=None)
    args = ap.parse_args()
    tier = os.environ.get("VERIF_TIER") or args.tier
    if tier not in ("quick", "thorough"):
        tier = args.tier
    try:
        seed = int(os.environ.get("VERIF_SEED", "0"))
    except ValueError:
        seed = 0
    pid = args.pid
    try:
        import hypnotoad

        hf = os.path.realpath(hypnotoad.__file__)
        if not hf.startswith(os.path.realpath(core.REPO) + os.sep):
            raise core.HarnessError("hypnotoad imported from %s, not %s" % (hf, core.REPO))
        mod = importlib.import_module("props." + pid)
    except Exception:
        traceback.print_exc()
        print("HARNESS-ERROR property=%s cannot import repository or check module" % pid)
        return 2
    level = getattr(mod, "LEVEL", LEVELS.get(pid, "exploration"))
    ctx = core.Ctx(pid, tier, seed, level)
    try:
        if args.replay:
            with open(args.replay) as f:
                payload = json.load(f)
            mod.replay(ctx, payload)
        else:
            mod.run(ctx)
    except core.HarnessError as e:
        traceback.print_exc()
        print("HARNESS-ERROR property=%s %s" % (pid, e))
        return 2
    except Exception:
        traceback.print_exc()
        print("HARNESS-ERROR property=%s unexpected exception in the checker" % pid)
        return 2
    if args.replay:
        # a replay does not rewrite evidence
        for sig, path, detail in ctx.violations:
            print("VIOLATION property=%s replay=%s" % (pid, args.replay))
            print("  signature: %s" % sig)
            print("  detail: %s" % json.dumps(detail)[:1500])
        for sig, v in ctx.known_hits.items():
            print("KNOWN-FINDING: property=%s %s [%s]" % (pid, v[1], sig))
        if not ctx.violations:
            print("replay: no (unlisted) violation reproduced")
        return 1 if ctx.violations else 0
    return ctx.finish()


if __name__ == "__main__":
    sys.exit(main())
