"""MANIFEST.setup_cmd: prepare /verif after a fresh restore, offline."""
import os, subprocess, sys
HERE = os.path.dirname(os.path.abspath(__file__))
for d in (".cache", "evidence", "replays"):
    os.makedirs(os.path.join(HERE, d), exist_ok=True)
print("setup ok")
