"""E4 - block-topology model with conformance replay (C08).

Two halves:

* ``bout_neighbours``: a small reference model of how BOUT++ reads ixseps1/2, jyseps*,
  ny_inner and y_boundary_guards as a cell adjacency (branch cuts at both X-points,
  periodic core, private-flux bypass, targets).
* ``standin_file``: runs the REAL index code of hypnotoad (TokamakEquilibrium.makeRegions,
  Equilibrium.makeConnection, Mesh.__init__ numbering and grouping, BoutMesh.__init__ index
  ranges, addFromRegions, writeGridfile) with only MeshRegion replaced by a geometry-free
  stand-in whose point coordinates are unique labels unified across connected edges.

``check_file`` does a breadth-first traversal of the cell adjacency graph of a written
file and checks every cell (state) and every edge (transition) against the model.
"""

import contextlib
import io
import os
import tempfile
import warnings
from collections import deque

import numpy as np


# ---------------------------------------------------------------------------------------
# reference model of BOUT++'s reading of the topology integers
# ---------------------------------------------------------------------------------------
def bout_neighbours(ints, nx, ny, myg):
    """Return (yup, ydown, index maps) on FILE y-indices (which include the boundary
    guard cells written by hypnotoad).

    ints: dict with ixseps1, ixseps2, jyseps1_1, jyseps2_1, jyseps1_2, jyseps2_2, ny_inner
    ny: number of y points without guards (the file's "ny").
    yup[x][jf] = file index of the cell above, or None at a target / beyond the last guard.
    """
    ix1, ix2 = ints["ixseps1"], ints["ixseps2"]
    j11, j21, j12, j22 = ints["jyseps1_1"], ints["jyseps2_1"], ints["jyseps1_2"], ints["jyseps2_2"]
    nyin = ints["ny_inner"]
    double = j21 != j12
    ixs_lower, ixs_upper = ix1, ix2

    # no-guard index space
    def up_ng(x, y):
        if x < ixs_lower:
            if y == j11:
                return j22 + 1 if j22 + 1 < ny else None
            if y == j22:
                return j11 + 1
        if double and x < ixs_upper:
            if y == j21:
                return j12 + 1
            if y == j12:
                return j21 + 1
        if double and y == nyin - 1:
            return None
        if y == ny - 1:
            return None
        return y + 1

    # file index <-> no-guard index
    blocks = []  # (kind, start_file, length, start_ng)
    jf = 0
    core_only = j11 == -1 and ix1 >= nx and ix2 >= nx and not double
    if core_only:
        # every field line is closed: no targets, hence no boundary guard cells
        layout = [("r", ny)]
    elif double:
        layout = [("g", myg), ("r", nyin), ("g", myg), ("g", myg), ("r", ny - nyin), ("g", myg)]
    else:
        layout = [("g", myg), ("r", ny), ("g", myg)]
    ng = 0
    f2n = {}
    n2f = {}
    guard_chain = {}  # file index of guard cell -> (file index above or None)
    pos = 0
    seq = []
    for kind, n in layout:
        for k in range(n):
            seq.append(kind)
    nyf = len(seq)
    for jf, kind in enumerate(seq):
        if kind == "r":
            f2n[jf] = ng
            n2f[ng] = jf
            ng += 1
    yup = [[None] * nyf for _ in range(nx)]
    for x in range(nx):
        for jf in range(nyf):
            if seq[jf] == "r":
                y = f2n[jf]
                u = up_ng(x, y)
                if u is not None:
                    yup[x][jf] = n2f[u]
                else:
                    # a target: the guard cell beyond it (if any) continues the chain
                    yup[x][jf] = jf + 1 if (jf + 1 < nyf and seq[jf + 1] == "g" and myg > 0) else None
            else:
                # guard cell: chain continues to jf+1 unless the next block is another
                # target's guards (middle of a double null) or the end of the file
                if jf + 1 >= nyf:
                    yup[x][jf] = None
                elif seq[jf + 1] == "r":
                    yup[x][jf] = jf + 1
                else:
                    # guard -> guard: same target's guards only
                    yup[x][jf] = jf + 1 if _same_guard_block(seq, layout, jf, jf + 1) else None
    return yup, nyf, f2n


def _same_guard_block(seq, layout, a, b):
    pos = 0
    for kind, n in layout:
        if pos <= a < pos + n:
            return pos <= b < pos + n
        pos += n
    return False


# ---------------------------------------------------------------------------------------
# stand-in regions
# ---------------------------------------------------------------------------------------
class UnionFind:
    def __init__(self):
        self.p = {}

    def find(self, a):
        p = self.p
        p.setdefault(a, a)
        r = a
        while p[r] != r:
            r = p[r]
        while p[a] != r:
            p[a], a = r, p[a]
        return r

    def union(self, a, b):
        ra, rb = self.find(a), self.find(b)
        if ra != rb:
            self.p[ra] = rb


_FIELDS_2D = [
    "psixy", "dx", "dy", "poloidal_distance", "Brxy", "Bzxy", "Bpxy", "Btxy", "Bxy", "hy",
    "dphidy", "ShiftTorsion", "zShift", "g11", "g22", "g33", "g12", "g13", "g23", "J", "g_11",
    "g_22", "g_33", "g_12", "g_13", "g_23", "curl_bOverB_x", "curl_bOverB_y", "curl_bOverB_z",
    "bxcvx", "bxcvy", "bxcvz",
]


def make_standin_class():
    from hypnotoad.core import mesh as meshmod
    from hypnotoad.core.multilocationarray import MultiLocationArray

    Real = meshmod._REAL_MeshRegion if hasattr(meshmod, "_REAL_MeshRegion") else meshmod.MeshRegion

    class StandInRegion(Real):
        def __init__(self, meshParent, myID, equilibriumRegion, connections, radialIndex,
                     settings, parallel_map):
            self.user_options = self.user_options_factory.create(settings)
            self.name = equilibriumRegion.name + "(" + str(radialIndex) + ")"
            self.meshParent = meshParent
            self.myID = myID
            self.equilibriumRegion = equilibriumRegion
            self.nx = equilibriumRegion.nx[radialIndex]
            self.ny = equilibriumRegion.ny(radialIndex)
            self.ny_noguards = equilibriumRegion.ny_noguards
            self.connections = connections
            self.radialIndex = radialIndex
            self.yGroupIndex = None
            self.contours = []
            self.psi_vals = np.zeros(2 * self.nx + 1)

        def fillRZ(self):
            self.Rxy = MultiLocationArray(self.nx, self.ny)
            self.Zxy = MultiLocationArray(self.nx, self.ny)
            for loc in ("centre", "xlow", "ylow", "corners"):
                getattr(self.Rxy, loc)[...] = -1.0
                getattr(self.Zxy, loc)[...] = 0.0
            self.Rxy.attributes = {}
            self.Zxy.attributes = {}

        def getRZBoundary(self):
            pass

        def calcPenaltyMask(self, equilibrium):
            self.penalty_mask = np.zeros((self.nx, self.ny))

        def calcDistances(self):
            pass

        def geometry1(self):
            for name in _FIELDS_2D:
                f = MultiLocationArray(self.nx, self.ny)
                val = self.meshParent.dy_scalar if name == "dy" else 1.0
                for loc in ("centre", "xlow", "ylow", "corners"):
                    getattr(f, loc)[...] = val
                setattr(self, name, f)
            # zShift: increases by one per cell along y inside a region, so that chi is
            # finite where ShiftAngle is; ShiftAngle: finite for periodic y-groups only
            self.total_poloidal_distance = MultiLocationArray(self.nx, 1)
            self.ShiftAngle = MultiLocationArray(self.nx, 1)
            periodic = self.meshParent._standin_periodic(self)
            v = 1.0 if periodic else float("nan")
            for arr in (self.total_poloidal_distance, self.ShiftAngle):
                arr.centre[...] = v
                arr.xlow[...] = v

        def geometry2(self):
            pass

        def calcZShift(self):
            pass

        def calcMetric(self):
            pass

    return StandInRegion


def _assign_labels(mesh):
    """unique labels for every point; points on connected edges unified (union-find over the
    REAL connection table produced by makeConnection / Mesh.__init__)"""
    uf = UnionFind()
    regs = mesh.regions
    for rid, r in regs.items():
        c = r.connections
        nx, ny = r.nx, r.ny
        if c["upper"] is not None:
            u = regs[c["upper"]]
            for i in range(nx + 1):
                uf.union(("c", rid, i, ny), ("c", u.myID, i, 0))
            for i in range(nx):
                uf.union(("y", rid, i, ny), ("y", u.myID, i, 0))
        if c["outer"] is not None:
            o = regs[c["outer"]]
            for j in range(ny + 1):
                uf.union(("c", rid, nx, j), ("c", o.myID, 0, j))
            for j in range(ny):
                uf.union(("x", rid, nx, j), ("x", o.myID, 0, j))
    ids = {}

    def lab(key):
        root = uf.find(key)
        if root not in ids:
            ids[root] = float(len(ids) + 1)
        return ids[root]

    for rid, r in regs.items():
        nx, ny = r.nx, r.ny
        for i in range(nx):
            for j in range(ny):
                r.Rxy.centre[i, j] = lab(("m", rid, i, j))
        for i in range(nx + 1):
            for j in range(ny):
                r.Rxy.xlow[i, j] = lab(("x", rid, i, j))
        for i in range(nx):
            for j in range(ny + 1):
                r.Rxy.ylow[i, j] = lab(("y", rid, i, j))
        for i in range(nx + 1):
            for j in range(ny + 1):
                r.Rxy.corners[i, j] = lab(("c", rid, i, j))


_legs_cache = {}


def _memo_findlegs():
    """findLegs traces the separatrix legs (scipy ODE integration, 60% of the cost of a
    stand-in run).  Its result depends on the psi array, the wall and the X-point only, not
    on any size option, so it is memoised per worker process; results are deep-copied."""
    import copy

    from hypnotoad.cases import tokamak

    if getattr(tokamak.TokamakEquilibrium.findLegs, "_verif_memo", False):
        return
    real = tokamak.TokamakEquilibrium.findLegs

    def findLegs(self, xpoint, *a, **kw):
        key = (getattr(self, "_verif_geomkey", None), round(xpoint.R, 12), round(xpoint.Z, 12), a,
               tuple(sorted(kw.items())))
        if key[0] is None:
            return real(self, xpoint, *a, **kw)
        if key not in _legs_cache:
            _legs_cache[key] = real(self, xpoint, *a, **kw)
        return copy.deepcopy(_legs_cache[key])

    findLegs._verif_memo = True
    tokamak.TokamakEquilibrium.findLegs = findLegs


def build_equilibrium(geom, options):
    """real TokamakEquilibrium with regions (the index code under test needs its region
    skeleton, connection table and sizes)"""
    from hypnotoad.cases import tokamak
    from vlib import families

    c = families.normalise(dict(geom=geom, fpol="const", pressure="none"))
    inp = families.build_inputs(c)
    _memo_findlegs()
    tokamak.TokamakEquilibrium._verif_geomkey = geom
    try:
        return tokamak.TokamakEquilibrium(
            inp["R1D"].copy(), inp["Z1D"].copy(), inp["psi2D"].copy(), inp["psi1D"].copy(),
            inp["fpol1D"].copy(), wall=inp["wall"], settings=dict(options))
    finally:
        tokamak.TokamakEquilibrium._verif_geomkey = None


def build_circular(options):
    from hypnotoad.cases import circular

    return circular.CircularEquilibrium(dict(options))


def read_nc(path):
    import netCDF4

    out = {}
    with netCDF4.Dataset(path) as ds:
        ds.set_auto_mask(False)
        for k, v in ds.variables.items():
            if v.dtype == str or v.dtype.kind in "SU":
                continue
            a = v[...]
            out[k] = a.item() if a.ndim == 0 else np.array(a)
    return out


def standin_file(kind, options):
    """Run the real index/write code with stand-in regions; returns dict(file=..., mesh
    info...) or dict(refused=...)"""
    from hypnotoad.core import equilibrium as eqmod
    from hypnotoad.core import mesh as meshmod

    if not hasattr(meshmod, "_REAL_MeshRegion"):
        meshmod._REAL_MeshRegion = meshmod.MeshRegion
    StandIn = make_standin_class()
    real_regrid = eqmod.EquilibriumRegion.getRegridded
    buf = io.StringIO()
    try:
        with contextlib.redirect_stdout(buf), warnings.catch_warnings():
            warnings.simplefilter("ignore")
            if kind == "circular":
                eq = build_circular(options)
            else:
                eq = build_equilibrium(kind, options)
            meshmod.MeshRegion = StandIn
            eqmod.EquilibriumRegion.getRegridded = lambda self, radialIndex, **kw: self

            def periodic(mesh, region):
                # follow upper connections; periodic if we return to the start
                seen = set()
                r = region
                while True:
                    up = r.connections["upper"]
                    if up is None:
                        return False
                    if up == region.myID:
                        return True
                    if up in seen:
                        return False
                    seen.add(up)
                    r = mesh.regions[up]

            meshmod.BoutMesh._standin_periodic = periodic
            mopts = dict(options)
            mesh = meshmod.BoutMesh(eq, mopts)
            mesh.calculateRZ()
            _assign_labels(mesh)
            mesh.geometry()
            fd, path = tempfile.mkstemp(suffix=".nc", dir=os.environ.get("VERIF_TMP", None))
            os.close(fd)
            os.remove(path)
            try:
                mesh.writeGridfile(path)
                f = read_nc(path)
            finally:
                if os.path.exists(path):
                    os.remove(path)
        info = dict(
            file=f,
            region_indices={rid: ((s[0].start, s[0].stop), (s[1].start, s[1].stop))
                            for rid, s in mesh.region_indices.items()},
            connections={rid: dict(r.connections) for rid, r in mesh.regions.items()},
            sizes={rid: (r.nx, r.ny) for rid, r in mesh.regions.items()},
            names={rid: r.name for rid, r in mesh.regions.items()},
            nx=mesh.nx, ny_file=mesh.ny, ny=mesh.ny_noguards,
            myg=int(mesh.user_options.y_boundary_guards),
        )
        return info
    except Exception as e:  # noqa: BLE001
        import traceback

        return dict(refused="%s: %s" % (type(e).__name__, str(e)[:200]), tb=traceback.format_exc()[-1500:])
    finally:
        meshmod.MeshRegion = meshmod._REAL_MeshRegion
        eqmod.EquilibriumRegion.getRegridded = real_regrid


# ---------------------------------------------------------------------------------------
# the checker (works on stand-in files and on real grid files alike)
# ---------------------------------------------------------------------------------------
INTS = ("ixseps1", "ixseps2", "jyseps1_1", "jyseps2_1", "jyseps1_2", "jyseps2_2", "ny_inner")


class Labeller:
    """maps coordinates to integer labels; with q given, points closer than q share a label
    (single-linkage clustering through a KD-tree + union-find, so there are no rounding
    boundaries)"""

    def __init__(self, q, arrays):
        self.q = q
        if q is None:
            self.map = None
            return
        from scipy.spatial import cKDTree

        pts = np.concatenate([np.column_stack([R.ravel(), Z.ravel()]) for R, Z in arrays])
        tree = cKDTree(pts)
        uf = UnionFind()
        for a, b in tree.query_pairs(q):
            uf.union(a, b)
        self.labels = np.array([uf.find(i) for i in range(len(pts))])
        self.offsets = np.cumsum([0] + [R.size for R, Z in arrays])
        self.k = 0

    def next(self, R, Z):
        if self.q is None:
            return list(zip(R.ravel().tolist(), Z.ravel().tolist()))
        l = self.labels[self.offsets[self.k]:self.offsets[self.k + 1]].tolist()
        self.k += 1
        return l


def check_file(f, info=None, q=None, real=False):
    """Return (problems, stats).  problems: list of (signature, detail).

    f: dict of file variables.  q: quantum for comparing coordinates (None = exact labels).
    """
    problems = []
    nx = int(f["nx"])
    ny = int(f["ny"])
    myg = int(f["y_boundary_guards"])
    ints = {k: int(f[k]) for k in INTS}
    nyf = f["Rxy"].shape[1]
    stats = dict(cells=nx * nyf, edges=0, bfs_components=0)

    def P(sig, **detail):
        problems.append((sig, detail))

    # ---- corner labels of every cell -------------------------------------------------
    names = ("_corners", "_lower_right_corners", "_upper_right_corners", "_upper_left_corners")
    labeller = Labeller(q, [(f["Rxy" + n], f["Zxy" + n]) for n in names])

    def lab(name):
        l = labeller.next(f["Rxy" + name], f["Zxy" + name])
        return [[l[i * nyf + j] for j in range(nyf)] for i in range(nx)]

    ll, lr, ur, ul = lab("_corners"), lab("_lower_right_corners"), lab("_upper_right_corners"), lab("_upper_left_corners")
    # exhibited y adjacency: upper edge of a == lower edge of b
    lower_edge = {}
    dup_lower = 0
    for i in range(nx):
        for j in range(nyf):
            key = (ll[i][j], lr[i][j])
            if key in lower_edge:
                dup_lower += 1
            lower_edge.setdefault(key, []).append((i, j))
    # ---- model --------------------------------------------------------------------------
    try:
        yup, nyf_model, f2n = bout_neighbours(ints, nx, ny, myg)
    except Exception as e:  # noqa: BLE001
        P("integers cannot be read as a BOUT++ topology", ints=ints, error=repr(e))
        return problems, stats
    if nyf_model != nyf:
        P("file y-size differs from ny + guard cells implied by the integers",
          ny=ny, myg=myg, ints=ints, file_ny=nyf, expected=nyf_model)
        return problems, stats
    # ---- every cell / edge -----------------------------------------------------------------
    n_up_edges = 0
    for i in range(nx):
        for j in range(nyf):
            key = (ul[i][j], ur[i][j])
            exhibited = [c for c in lower_edge.get(key, []) if c != (i, j) or True]
            # a cell whose upper edge equals its own lower edge is degenerate
            ex = sorted(set(exhibited))
            m = yup[i][j]
            want = [(i, m)] if m is not None else []
            stats["edges"] += 1
            if ex != want:
                P("y-adjacency exhibited by corner coordinates differs from the BOUT++ reading of the integers",
                  cell=[i, j], exhibited=ex, model=want, ints=ints, ny=ny, myg=myg)
                if len(problems) > 20:
                    return problems, stats
            else:
                n_up_edges += len(want)
    # x adjacency: always (i+1, j)
    for i in range(nx - 1):
        for j in range(nyf):
            stats["edges"] += 1
            if (lr[i][j], ur[i][j]) != (ll[i + 1][j], ul[i + 1][j]):
                P("x-adjacency: right edge of a cell differs from the left edge of its x-neighbour",
                  cell=[i, j], right=[lr[i][j], ur[i][j]], left_of_next=[ll[i + 1][j], ul[i + 1][j]])
                if len(problems) > 20:
                    return problems, stats
    # cell faces and centres lie between the corners consistently (labels): ylow of (i,j)
    # equals ylow-upper of the cell below; checked through Rxy_ylow / Rxy_xlow labels
    # BFS over the adjacency graph: count components and check every cell is reached from
    # a target or lies on a closed (periodic) chain
    ydown = {}
    for i in range(nx):
        for j in range(nyf):
            m = yup[i][j]
            if m is not None:
                if (i, m) in ydown:
                    P("two cells claim the same cell above them (model)", cell=[i, m])
                ydown[(i, m)] = (i, j)
    seen = set()
    comps = 0
    for i in range(nx):
        for j in range(nyf):
            if (i, j) in seen:
                continue
            comps += 1
            dq = deque([(i, j)])
            seen.add((i, j))
            while dq:
                a = dq.popleft()
                nb = []
                if yup[a[0]][a[1]] is not None:
                    nb.append((a[0], yup[a[0]][a[1]]))
                if a in ydown:
                    nb.append(ydown[a])
                if a[0] + 1 < nx:
                    nb.append((a[0] + 1, a[1]))
                if a[0] > 0:
                    nb.append((a[0] - 1, a[1]))
                for b in nb:
                    if b not in seen:
                        seen.add(b)
                        dq.append(b)
    stats["bfs_components"] = comps
    # ---- ordering / range constraints (weak form enforced by BOUT++ on load) -----------------
    j11, j21, j12, j22, nyin = (ints[k] for k in ("jyseps1_1", "jyseps2_1", "jyseps1_2", "jyseps2_2", "ny_inner"))
    ix1, ix2 = ints["ixseps1"], ints["ixseps2"]
    if not (-1 <= j11 <= j21 <= j12 <= j22 <= ny - 1):
        P("jyseps indices not ordered -1 <= jyseps1_1 <= jyseps2_1 <= jyseps1_2 <= jyseps2_2 <= ny-1",
          ints=ints, ny=ny, myg=myg)
    if not ((0 <= ix1 <= nx or ix1 == -1) and (0 <= ix2 <= nx or ix2 == -1)):
        P("ixseps out of range", ints=ints, nx=nx)
    if j21 != j12 and not (j21 < nyin <= j12 + 1):
        P("ny_inner does not lie between the upper legs", ints=ints)
    # ---- y-coord / theta / chi -----------------------------------------------------------------
    if "y-coord" in f and "dy" in f:
        y = f["y-coord"]
        dy = f["dy"]
        want = np.zeros_like(y)
        want[:, 1:] = np.cumsum(dy, axis=1)[:, :-1]
        if np.max(np.abs(y - want)) > 1e-12 * max(1.0, np.max(np.abs(want))):
            P("y-coord is not the cumulative sum of dy from 0")
    if "theta" in f:
        th = f["theta_ylow"]
        # theta = 0 at the ylow face that starts the core, 2*pi at the face that ends it
        dyv = float(f["dy"][0, 0])
        if nyf == ny:
            myg = 0  # a grid without targets has no boundary guard cells in the file
        start = j11 + myg + 1
        ncore_file = (j22 - j11)
        if j21 != j12:
            ncore = (j21 - j11) + (j22 - j12)
        else:
            ncore = j22 - j11
        if 0 <= start < nyf:
            if abs(th[0, start]) > 1e-12:
                P("theta is not zero at the first core face", value=float(th[0, start]), ints=ints)
            # last core face
            end_file = j22 + (3 * myg if j21 != j12 else myg) + 1
            if ncore > 0 and end_file < th.shape[1] + 1:
                endval = th[0, end_file] if end_file < th.shape[1] else th[0, -1] + dyv
                if abs(endval - ncore * dyv) > 1e-9 * max(1.0, abs(ncore * dyv)):
                    P("theta at the end of the core differs from ncore*dy", got=float(endval),
                      want=ncore * dyv, ints=ints, myg=myg)
            if ncore > 0 and abs(ncore * dyv - 2 * np.pi) > 1e-9:
                P("dy is not 2*pi/ny_core", dy=dyv, ncore=ncore)
    if "chi" in f and "ShiftAngle" in f:
        sa = f["ShiftAngle"]
        for name in ("chi", "chi_xlow", "chi_ylow"):
            ch = f[name]
            core_cols = np.zeros(nyf, bool)
            for jf, yn in f2n.items():
                if (j11 < yn <= j21) or (j12 < yn <= j22):
                    core_cols[jf] = True
            if j21 == j12:
                core_cols[:] = False
                for jf, yn in f2n.items():
                    if j11 < yn <= j22:
                        core_cols[jf] = True
            # chi = 2*pi*zShift/ShiftAngle is 0/0 when there is no toroidal field
            closed_x = np.isfinite(sa) & (sa != 0)
            fin = np.isfinite(ch)
            want = closed_x[:, None] & core_cols[None, :]
            if real or True:
                bad = fin != want
                if bad.any():
                    idx = tuple(map(int, np.argwhere(bad)[0]))
                    P("%s finite/NaN pattern differs from 'NaN exactly outside the closed-field-line core cells'" % name,
                      index=list(idx), is_finite=bool(fin[idx]), should_be_finite=bool(want[idx]), n_bad=int(bad.sum()))
    # ---- tiling (needs mesh info) -----------------------------------------------------------------
    if info is not None:
        cover = np.zeros((nx, nyf), int)
        for rid, ((x0, x1), (y0, y1)) in info["region_indices"].items():
            cover[x0:x1, y0:y1] += 1
            if (x1 - x0, y1 - y0) != tuple(info["sizes"][rid]):
                P("region index range differs from the region's own size", region=info["names"][rid])
        if not np.all(cover == 1):
            P("regions do not tile the global index rectangle exactly once",
              uncovered=int((cover == 0).sum()), multiply_covered=int((cover > 1).sum()))
        conns = info["connections"]
        opp = {"upper": "lower", "lower": "upper", "inner": "outer", "outer": "inner"}
        for rid, c in conns.items():
            for side, other in c.items():
                if other is None:
                    continue
                if conns[other][opp[side]] != rid:
                    P("connection not symmetric", region=info["names"][rid], side=side)
                a, b = info["sizes"][rid], info["sizes"][other]
                if side in ("upper", "lower") and a[0] != b[0]:
                    P("y-connected regions have different nx", region=info["names"][rid])
                if side in ("inner", "outer") and a[1] != b[1]:
                    P("x-connected regions have different ny", region=info["names"][rid])
    return problems, stats
