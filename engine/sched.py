"""E1 - schedule and fault explorer for hypnotoad.utils.parallel_map.ParallelMap.

The unmodified module is executed with its ``multiprocessing`` attribute replaced by a
virtual module (``VirtualMP``).  Virtual processes are real threads that run one at a time
under a baton; every Process.start/terminate/join, Queue.put/get/empty and process
begin is a scheduling point.  ``explore`` performs a stateless depth-first search over
choice sequences with state matching (see DESIGN.md section 2, E1).
"""

import hashlib
import pickle
import sys
import threading


class Abort(BaseException):
    """Unwinds a virtual process when an execution is abandoned or it was terminated."""


class Divergence(Exception):
    """Replay of a recorded prefix did not see the same enabled sets (harness error)."""


class VProc:
    __slots__ = (
        "name", "sem", "pending", "status", "nops", "hist", "thread", "killed",
        "result", "is_feeder", "exc",
    )

    def __init__(self, name):
        self.name = name
        self.sem = threading.Semaphore(0)
        self.pending = None  # (kind, obj, arg)
        self.status = "new"  # new | live | dead
        self.nops = 0
        self.hist = hashlib.blake2b(digest_size=8)
        self.thread = None
        self.killed = False
        self.exc = None


class VQueue:
    def __init__(self, sched):
        self.sched = sched
        self.qid = len(sched.queues)
        sched.queues.append(self)
        self.pipe = []  # pickled bytes, FIFO
        self.buffers = {}  # producer name -> list of bytes still in its feeder buffer

    def put(self, obj):
        # multiprocessing.Queue.put() only appends to a buffer; the object is pickled (standard
        # pickle) later by the feeder thread, where a failure is printed and the item is LOST -
        # put() itself never raises for an unpicklable object
        try:
            data = pickle.dumps(obj)
        except Exception:  # noqa: BLE001
            self.sched.dropped = getattr(self.sched, "dropped", 0) + 1
            return
        self.sched.op("put", self, data)

    def get(self):
        data = self.sched.op("get", self, None)
        return pickle.loads(data)

    def empty(self):
        return self.sched.op("empty", self, None)

    # real Queue API used by nothing in parallel_map today, but realistic changes may use it
    def get_nowait(self):
        import queue

        data = self.sched.op("get_nowait", self, None)
        if data is None:
            raise queue.Empty
        return pickle.loads(data)

    def put_nowait(self, obj):
        self.put(obj)

    def qsize(self):
        return self.sched.op("qsize", self, None)

    def close(self):
        pass

    def join_thread(self):
        pass

    def cancel_join_thread(self):
        pass


class VProcess:
    def __init__(self, sched, target=None, args=(), kwargs=None, daemon=None, name=None):
        self.sched = sched
        self.target = target
        self.args = args
        self.kwargs = kwargs or {}
        self.daemon = daemon
        self.vp = None
        self.exitcode = None

    def start(self):
        self.sched.op("start", self, None)

    def terminate(self):
        if self.sched.aborted:
            return  # the execution is being abandoned (__del__ runs while unwinding)
        self.sched.op("terminate", self, None)

    kill = terminate

    def join(self, timeout=None):
        if self.sched.aborted:
            return
        if timeout is not None:
            # a timed join never blocks for ever: modelled as a pure scheduling point
            self.sched.op("yield", None, None)
            return
        self.sched.op("join", self, None)

    def is_alive(self):
        return self.sched.op("is_alive", self, None)

    def close(self):
        pass


class VirtualMP:
    """Stand-in for the ``multiprocessing`` module attribute of parallel_map."""

    def __init__(self, sched):
        self._sched = sched

    def Queue(self, maxsize=0):
        return VQueue(self._sched)

    SimpleQueue = Queue

    def Process(self, *a, **kw):
        kw.pop("group", None)
        return VProcess(self._sched, *a, **kw)

    def cpu_count(self):
        return 4

    def get_context(self, *a):
        return self

    def current_process(self):
        return self._sched.current


class Execution:
    """One execution of a harness body under a given choice prefix."""

    def __init__(self, body, prefix, delay_budget, visited, symmetric=True, max_steps=4000):
        self.body = body
        self.prefix = prefix
        self.delay_budget = delay_budget
        self.visited = visited
        self.symmetric = symmetric
        self.max_steps = max_steps
        self.queues = []
        self.procs = []  # VProc, index 0 = parent
        self.sched_sem = threading.Semaphore(0)
        self.current = None
        self.aborted = False
        self.choices = []  # choice index taken at every point
        self.nenabled = []  # number of alternatives at every point
        self.labels = []
        self.outcome = None
        self.pruned = False
        self.delays_used = 0
        self.nworker = 0
        self.trace = []
        self.by_thread = {}

    # ---- called from virtual processes --------------------------------------------
    def op(self, kind, obj, arg):
        me = self.by_thread.get(threading.get_ident())
        if self.aborted or me is None or me.killed:
            raise Abort()
        me.pending = (kind, obj, arg)
        self.sched_sem.release()
        me.sem.acquire()
        if self.aborted or me.killed:
            raise Abort()
        res = me.result
        me.result = None
        return res

    def _thread_main(self, vp, fn):
        self.by_thread[threading.get_ident()] = vp
        vp.sem.acquire()
        if self.aborted or vp.killed:
            vp.status = "dead"
            return
        try:
            fn()
        except Abort:
            vp.status = "dead"
            return
        except BaseException as e:  # a worker dying with an exception
            vp.exc = e
        vp.status = "dead"
        vp.pending = None
        if not self.aborted:
            self.sched_sem.release()

    def _spawn(self, name, fn):
        vp = VProc(name)
        vp.result = None
        vp.pending = ("begin", None, None)
        vp.status = "live"
        vp.thread = threading.Thread(target=self._thread_main, args=(vp, fn), daemon=True)
        self.procs.append(vp)
        vp.thread.start()
        return vp

    # ---- scheduler ----------------------------------------------------------------
    def _enabled(self):
        out = []
        for vp in self.procs:
            if vp.status != "live" or vp.killed or vp.pending is None:
                continue
            kind, obj, arg = vp.pending
            if kind == "get" and not obj.pipe:
                continue
            if kind == "join" and obj.vp is not None and obj.vp.status == "live" and not obj.vp.killed:
                continue
            if kind == "put" and self.delays_used < self.delay_budget:
                out.append((vp, "direct"))
                out.append((vp, "delayed"))
                continue
            out.append((vp, None))
        # feeder actions: one per (queue, producer) with a non-empty buffer
        for q in self.queues:
            for prod in sorted(q.buffers):
                if q.buffers[prod]:
                    out.append((("feeder", q, prod), None))
        return out

    def _state(self):
        qs = tuple(
            (tuple(q.pipe), tuple((p, tuple(b)) for p, b in sorted(q.buffers.items()) if b))
            for q in self.queues
        )

        def loc(vp):
            return (vp.status if not vp.killed else "dead", vp.nops, vp.hist.digest())

        parent = loc(self.procs[0])
        workers = [loc(vp) for vp in self.procs[1:]]
        if self.symmetric:
            # feeder buffers are keyed by producer name; fold them into the worker's tuple
            wl = []
            for vp in self.procs[1:]:
                bufs = tuple(tuple(q.buffers.get(vp.name, ())) for q in self.queues)
                wl.append(loc(vp) + (bufs,))
            workers = sorted(wl)
            qs = tuple(
                (tuple(q.pipe), tuple(q.buffers.get(self.procs[0].name, ())))
                for q in self.queues
            )
        return (qs, parent, tuple(workers), self.delays_used)

    def _perform(self, who, variant):
        if isinstance(who, tuple):  # feeder
            _, q, prod = who
            q.pipe.append(q.buffers[prod].pop(0))
            self.trace.append("feeder(q%d,%s)" % (q.qid, prod))
            return None
        vp = who
        kind, obj, arg = vp.pending
        vp.pending = None
        vp.nops += 1
        res = None
        if kind == "begin" or kind == "yield":
            pass
        elif kind == "put":
            if variant == "delayed":
                self.delays_used += 1
                obj.buffers.setdefault(vp.name, []).append(arg)
            else:
                # FIFO per producer: an undelayed put behind a delayed one stays behind it
                if obj.buffers.get(vp.name):
                    obj.buffers[vp.name].append(arg)
                else:
                    obj.pipe.append(arg)
        elif kind == "get":
            res = obj.pipe.pop(0)
            vp.hist.update(b"g" + res)
        elif kind == "get_nowait":
            res = obj.pipe.pop(0) if obj.pipe else None
            vp.hist.update(b"n" + (res or b"-"))
        elif kind == "empty":
            res = not obj.pipe
            vp.hist.update(b"e1" if res else b"e0")
        elif kind == "qsize":
            res = len(obj.pipe)
            vp.hist.update(b"s%d" % res)
        elif kind == "start":
            self.nworker += 1
            name = "w%d" % self.nworker
            target, a, kw = obj.target, obj.args, obj.kwargs
            obj.vp = self._spawn(name, lambda: target(*a, **kw))
        elif kind == "terminate":
            if obj.vp is not None and obj.vp.status == "live":
                obj.vp.killed = True
                obj.exitcode = -15
        elif kind == "join":
            pass
        elif kind == "is_alive":
            res = obj.vp is not None and obj.vp.status == "live" and not obj.vp.killed
            vp.hist.update(b"a1" if res else b"a0")
        else:
            raise AssertionError(kind)
        self.trace.append("%s:%s%s%s" % (
            vp.name, kind,
            ("(q%d)" % obj.qid) if isinstance(obj, VQueue) else "",
            ("/" + variant) if variant else ""))
        vp.result = res
        return vp

    def run(self):
        parent_result = {}

        def parent_fn():
            parent_result["out"] = self.body(VirtualMP(self))

        self._spawn("P", parent_fn)
        running = None
        step = 0
        try:
            while True:
                if running is not None:
                    self.sched_sem.acquire()  # wait until it announces or dies
                    running = None
                parent = self.procs[0]
                if parent.status == "dead":
                    if parent.exc is not None:
                        self.outcome = ("harness-exc", repr(parent.exc))
                    else:
                        self.outcome = ("done", parent_result.get("out"))
                    break
                en = self._enabled()
                if not en:
                    self.outcome = ("blocked", self._describe_block())
                    break
                i = len(self.choices)
                if i < len(self.prefix):
                    c = self.prefix[i]
                    if c >= len(en):
                        raise Divergence("choice %d of %d at point %d" % (c, len(en), i))
                else:
                    st = self._state()
                    if st in self.visited:
                        self.pruned = True
                        break
                    self.visited.add(st)
                    c = 0
                step += 1
                if step > self.max_steps:
                    self.outcome = ("horizon", step)
                    break
                self.choices.append(c)
                self.nenabled.append(len(en))
                who, variant = en[c]
                vp = self._perform(who, variant)
                if vp is not None:
                    self.current = vp
                    running = vp
                    vp.sem.release()
        finally:
            self._cleanup()
        return self

    def _describe_block(self):
        d = []
        for vp in self.procs:
            st = "dead" if (vp.status != "live" or vp.killed) else "waiting:%s" % (vp.pending[0] if vp.pending else "?")
            if vp.exc is not None:
                st += " exc=%r" % (vp.exc,)
            d.append("%s=%s" % (vp.name, st))
        return ", ".join(d)

    def alive_workers(self):
        return [vp.name for vp in self.procs[1:] if vp.status == "live" and not vp.killed]

    def _cleanup(self):
        self.aborted = True
        for vp in self.procs:
            vp.sem.release()
        for vp in self.procs:
            vp.thread.join(5)
            if vp.thread.is_alive():
                raise RuntimeError("virtual process %s did not unwind" % vp.name)


def explore(body, delay_budget=0, symmetric=True, max_exec=None, on_terminal=None):
    """Depth-first search with state matching over all schedules of ``body``.

    body(vmp) runs as the parent process and returns an observation.
    Returns dict(executions, states, transitions, pruned, outcomes{key: [count, example
    choices]}, complete).
    """
    visited = set()
    stack = [[]]
    stats = dict(executions=0, pruned=0, transitions=0, maxdepth=0)
    outcomes = {}
    complete = True
    while stack:
        if max_exec is not None and stats["executions"] >= max_exec:
            complete = False
            break
        prefix = stack.pop()
        ex = Execution(body, prefix, delay_budget, visited, symmetric).run()
        stats["executions"] += 1
        stats["transitions"] += len(ex.choices) - len(prefix) + (1 if prefix else 0)
        stats["maxdepth"] = max(stats["maxdepth"], len(ex.choices))
        if ex.pruned:
            stats["pruned"] += 1
        else:
            key = ex.outcome
            alive = ex.alive_workers() if ex.outcome[0] == "done" else []
            k = (repr(key), tuple(alive))
            ent = outcomes.setdefault(k, [0, list(ex.choices), key, alive, list(ex.trace)])
            ent[0] += 1
            if on_terminal is not None:
                on_terminal(ex)
        for i in range(len(ex.choices) - 1, len(prefix) - 1, -1):
            for alt in range(1, ex.nenabled[i]):
                stack.append(ex.choices[:i] + [alt])
    stats["states"] = len(visited)
    stats["outcomes"] = outcomes
    stats["complete"] = complete
    return stats


def run_schedule(body, choices, delay_budget=0):
    """Replay exactly one schedule (no state matching); used for replay artefacts and for
    the determinism self-test."""
    ex = Execution(body, list(choices), delay_budget, set(), symmetric=False)
    ex.run()
    return ex
