"""Exact rational geometry on float inputs (floats are exact rationals)."""

from fractions import Fraction as F


def fr(p):
    return (F(float(p[0])), F(float(p[1])))


def cross(o, a, b):
    return (a[0] - o[0]) * (b[1] - o[1]) - (a[1] - o[1]) * (b[0] - o[0])


def on_segment(p, a, b):
    if cross(a, b, p) != 0:
        return False
    return min(a[0], b[0]) <= p[0] <= max(a[0], b[0]) and min(a[1], b[1]) <= p[1] <= max(a[1], b[1])


def point_in_polygon(p, poly):
    """poly: list of exact points (open: last connects to first).  Returns 1 inside,
    0 on the boundary, -1 outside.  Exact winding-number test."""
    p = fr(p) if not isinstance(p[0], F) else p
    wn = 0
    n = len(poly)
    for i in range(n):
        a, b = poly[i], poly[(i + 1) % n]
        if on_segment(p, a, b):
            return 0
        if a[1] <= p[1]:
            if b[1] > p[1] and cross(a, b, p) > 0:
                wn += 1
        else:
            if b[1] <= p[1] and cross(a, b, p) < 0:
                wn -= 1
    return 1 if wn != 0 else -1


def seg_seg(p1, p2, a, b):
    """intersection of segments p1p2 and ab: list of parameters t in [0,1] along p1p2
    (empty if none; two end parameters if collinear overlapping)"""
    d = (p2[0] - p1[0], p2[1] - p1[1])
    e = (b[0] - a[0], b[1] - a[1])
    den = d[0] * e[1] - d[1] * e[0]
    w = (a[0] - p1[0], a[1] - p1[1])
    if den != 0:
        t = (w[0] * e[1] - w[1] * e[0]) / den
        u = (w[0] * d[1] - w[1] * d[0]) / den
        if 0 <= t <= 1 and 0 <= u <= 1:
            return [t]
        return []
    # parallel
    if w[0] * d[1] - w[1] * d[0] != 0:
        return []
    dd = d[0] * d[0] + d[1] * d[1]
    if dd == 0:
        return [F(0)] if on_segment(p1, a, b) else []
    ta = (w[0] * d[0] + w[1] * d[1]) / dd
    tb = ((b[0] - p1[0]) * d[0] + (b[1] - p1[1]) * d[1]) / dd
    lo, hi = max(min(ta, tb), F(0)), min(max(ta, tb), F(1))
    if lo > hi:
        return []
    return [lo, hi] if lo != hi else [lo]


def seg_polygon_params(p1, p2, poly):
    """sorted distinct parameters t in [0,1] where segment p1p2 meets the polygon boundary"""
    p1, p2 = fr(p1), fr(p2)
    ts = set()
    n = len(poly)
    for i in range(n):
        for t in seg_seg(p1, p2, poly[i], poly[(i + 1) % n]):
            ts.add(t)
    return sorted(ts)


def dist_point_polyline(p, poly):
    """float distance from p to the closed polyline (float arithmetic is enough here)"""
    import math

    best = float("inf")
    n = len(poly)
    px, py = float(p[0]), float(p[1])
    for i in range(n):
        ax, ay = float(poly[i][0]), float(poly[i][1])
        bx, by = float(poly[(i + 1) % n][0]), float(poly[(i + 1) % n][1])
        dx, dy = bx - ax, by - ay
        L2 = dx * dx + dy * dy
        t = 0.0 if L2 == 0 else max(0.0, min(1.0, ((px - ax) * dx + (py - ay) * dy) / L2))
        best = min(best, math.hypot(px - (ax + t * dx), py - (ay + t * dy)))
    return best


def signed_area(poly):
    n = len(poly)
    s = F(0)
    for i in range(n):
        a, b = poly[i], poly[(i + 1) % n]
        s += a[0] * b[1] - b[0] * a[1]
    return s / 2


def on_or_near(a, b, m):
    """is the float point m plausibly the face point between exact corners a and b?  (the
    neighbouring cell across a branch cut or a region edge is a different cell: its face
    point is far from this cell's edge).  True if m is within one edge length of both ends."""
    import math

    ax, ay, bx, by = float(a[0]), float(a[1]), float(b[0]), float(b[1])
    L = math.hypot(bx - ax, by - ay)
    return math.hypot(m[0] - ax, m[1] - ay) <= 1.01 * L and math.hypot(m[0] - bx, m[1] - by) <= 1.01 * L
