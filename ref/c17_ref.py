"""C17 reference model of the G-EQDSK text format, written from the format definition
(General Atomics "G EQDSK FORMAT" note), independent of hypnotoad.geqdsk:

    read (neqdsk,2000) (case(i),i=1,6),idum,nw,nh          2000 format (6a8,3i4)
    read (neqdsk,2020) rdim,zdim,rcentr,rleft,zmid         2020 format (5e16.9)
    read (neqdsk,2020) rmaxis,zmaxis,simag,sibry,bcentr
    read (neqdsk,2020) current,simag,xdum,rmaxis,xdum
    read (neqdsk,2020) zmaxis,xdum,sibry,xdum,xdum
    read (neqdsk,2020) (fpol(i),i=1,nw)
    read (neqdsk,2020) (pres(i),i=1,nw)
    read (neqdsk,2020) (ffprim(i),i=1,nw)
    read (neqdsk,2020) (pprime(i),i=1,nw)
    read (neqdsk,2020) ((psirz(i,j),i=1,nw),j=1,nh)
    read (neqdsk,2020) (qpsi(i),i=1,nw)
    read (neqdsk,2022) nbbbs,limitr                        2022 format (2i5)
    read (neqdsk,2020) (rbbbs(i),zbbbs(i),i=1,nbbbs)
    read (neqdsk,2020) (rlim(i),zlim(i),i=1,limitr)

Numbers are formatted / rounded with the ``decimal`` module (exact binary value of the
float, rounded to ten significant decimal digits), not with ``%E``.
"""

from decimal import ROUND_HALF_EVEN, ROUND_HALF_UP, Decimal
from functools import lru_cache

import numpy as np

SCALARS_L2 = ["rdim", "zdim", "rcentr", "rleft", "zmid"]
SCALARS_L3 = ["rmagx", "zmagx", "simagx", "sibdry", "bcentr"]
SCALARS_L4 = ["cpasma", "simagx", None, "rmagx", None]
SCALARS_L5 = ["zmagx", None, "sibdry", None, None]
SCALARS = SCALARS_L2 + SCALARS_L3 + ["cpasma"]


class FormatError(Exception):
    pass


def _round10(v, mode):
    """(sign, ten digits as int tuple, decimal exponent) of float v rounded to ten
    significant digits; v != 0 and finite"""
    d = Decimal(float(v))  # exact
    e = d.adjusted()
    q = d.quantize(Decimal(1).scaleb(e - 9), rounding=mode)
    if q.adjusted() > e:  # 9.9999999996 -> 10.00000000: one more decade
        e += 1
        q = q.quantize(Decimal(1).scaleb(e - 9), rounding=mode)
    sign, digits, exp = q.as_tuple()
    digits = tuple(digits)
    # normalise to exactly ten digits
    if len(digits) < 10:
        digits = digits + (0,) * (10 - len(digits))
    assert len(digits) == 10, (v, q)
    return sign, digits, e


def _text(sign, digits, e):
    return "%s%d.%sE%s%02d" % (
        "-" if sign else "",
        digits[0],
        "".join(str(x) for x in digits[1:]),
        "-" if e < 0 else "+",
        abs(e),
    )


@lru_cache(maxsize=4096)
def e16_9(v):
    """Fortran E16.9-style field (1PE16.9: one digit before the point, as every G-EQDSK
    writer emits) of width 16, right justified"""
    v = float(v)
    if v == 0.0:
        s = "0.000000000E+00"
    else:
        s = _text(*_round10(v, ROUND_HALF_EVEN))
    if len(s) > 16:
        raise FormatError("value %r does not fit a two-digit exponent field" % v)
    return s.rjust(16)


@lru_cache(maxsize=4096)
def e16_9_0p(v):
    """Plain Fortran E16.9 (no 1P scale factor, what EFIT itself writes):
    0.dddddddddE+ee, nine significant digits.  Returns None when the exponent would need
    three digits."""
    v = float(v)
    if v == 0.0:
        return "0.000000000E+00".rjust(16)
    d = Decimal(v)
    e = d.adjusted()
    q = d.quantize(Decimal(1).scaleb(e - 8), rounding=ROUND_HALF_EVEN)
    if q.adjusted() > e:
        e += 1
        q = q.quantize(Decimal(1).scaleb(e - 8), rounding=ROUND_HALF_EVEN)
    sign, digits, _ = q.as_tuple()
    digits = tuple(digits) + (0,) * (9 - len(digits))
    ex = e + 1
    if abs(ex) > 99:
        return None
    s = "%s0.%sE%s%02d" % ("-" if sign else "", "".join(str(x) for x in digits[:9]),
                           "-" if ex < 0 else "+", abs(ex))
    return s.rjust(16)


@lru_cache(maxsize=4096)
def rounded10(v):
    """set of acceptable floats for 'v to ten significant digits': the nearest ten-digit
    decimal (both neighbours on an exact tie), converted back to the nearest double"""
    v = float(v)
    if v == 0.0:
        return (0.0,)
    a = float(_text(*_round10(v, ROUND_HALF_EVEN)))
    b = float(_text(*_round10(v, ROUND_HALF_UP)))
    return (a,) if a == b else (a, b)


def representable(v):
    """finite and a two-digit decimal exponent after rounding to ten digits"""
    v = float(v)
    if v != v or v in (float("inf"), float("-inf")):
        return False
    if v == 0.0:
        return True
    return abs(_round10(v, ROUND_HALF_EVEN)[2]) <= 99


def header_6a8_3i4(description, nx, ny, idum=3):
    """strictly conforming first line: 48 characters of text, then 3i4"""
    return "%-48.48s%4d%4d%4d\n" % (description, idum, nx, ny)


def _lines_5e16_9(values, fmt=e16_9):
    out = []
    values = [float(v) for v in values]
    for k in range(0, len(values), 5):
        out.append("".join(fmt(v) for v in values[k:k + 5]) + "\n")
    return out


def write_strict(d, description="", fmt=e16_9):
    """Text of data set d in strict fixed-width form (no separators other than the
    field padding itself: negative numbers abut their left neighbour).  Optional entries
    absent from d are written as the format requires: zeros for ffprime/pprime, counts
    0 for boundary/limiter."""
    nx, ny = int(d["nx"]), int(d["ny"])
    zero = dict(d)
    out = [header_6a8_3i4(description, nx, ny)]
    for names in (SCALARS_L2, SCALARS_L3, SCALARS_L4, SCALARS_L5):
        out += _lines_5e16_9([0.0 if n is None else zero[n] for n in names], fmt)
    out += _lines_5e16_9(np.asarray(d["fpol"], dtype=float), fmt)
    out += _lines_5e16_9(np.asarray(d["pres"], dtype=float), fmt)
    out += _lines_5e16_9(np.asarray(d.get("ffprime", np.zeros(nx)), dtype=float), fmt)
    out += _lines_5e16_9(np.asarray(d.get("pprime", np.zeros(nx)), dtype=float), fmt)
    psi = np.asarray(d["psi"], dtype=float)
    out += _lines_5e16_9([psi[i, j] for j in range(ny) for i in range(nx)], fmt)
    out += _lines_5e16_9(np.asarray(d["qpsi"], dtype=float), fmt)
    nb = len(d["rbdry"]) if "rbdry" in d else 0
    nl = len(d["rlim"]) if "rlim" in d else 0
    out.append("%5d%5d\n" % (nb, nl))
    if nb:
        out += _lines_5e16_9([x for r, z in zip(d["rbdry"], d["zbdry"]) for x in (r, z)], fmt)
    if nl:
        out += _lines_5e16_9([x for r, z in zip(d["rlim"], d["zlim"]) for x in (r, z)], fmt)
    return "".join(out)


def _field(s):
    t = s.strip()
    if not t:
        raise FormatError("blank numeric field %r" % s)
    try:
        return float(t)
    except ValueError:
        raise FormatError("field %r is not a number" % s)


class _Records:
    def __init__(self, text):
        self.lines = text.split("\n")
        if self.lines and self.lines[-1] == "":
            self.lines.pop()
        self.pos = 0

    def next(self):
        if self.pos >= len(self.lines):
            raise FormatError("unexpected end of file at record %d" % self.pos)
        ln = self.lines[self.pos]
        self.pos += 1
        return ln

    def read_5e16_9(self, n):
        """list-directed by format: n values, five 16-character fields per record; a new
        READ starts on a new record"""
        vals = []
        while len(vals) < n:
            ln = self.next()
            want = min(5, n - len(vals))
            if len(ln) != 16 * want:
                raise FormatError(
                    "record %d has length %d, expected %d fields of width 16: %r"
                    % (self.pos, len(ln), want, ln)
                )
            for k in range(want):
                vals.append(_field(ln[16 * k:16 * k + 16]))
        return vals


def header_sizes_strict(line):
    """idum, nw, nh read with (6a8,3i4) at fixed columns; FormatError if the columns do
    not hold integers"""
    try:
        return int(line[48:52]), int(line[52:56]), int(line[56:60])
    except ValueError:
        raise FormatError("columns 49-60 of the first record are not 3i4: %r" % line)


def read_strict(text, nx, ny):
    """Fixed-width reader.  nx, ny are passed in (the header line of the file under
    test is judged separately by header_sizes_strict) so that the body parse does not
    depend on how the 48 description characters were filled."""
    rec = _Records(text)
    rec.next()  # header
    out = {"nx": nx, "ny": ny}
    for names in (SCALARS_L2, SCALARS_L3, SCALARS_L4, SCALARS_L5):
        vals = rec.read_5e16_9(5)
        for n, v in zip(names, vals):
            if n is not None:
                out[n] = v
    for name in ("fpol", "pres", "ffprime", "pprime"):
        out[name] = np.array(rec.read_5e16_9(nx))
    flat = rec.read_5e16_9(nx * ny)
    psi = np.zeros((nx, ny))
    k = 0
    for j in range(ny):  # ((psirz(i,j),i=1,nw),j=1,nh): i fastest
        for i in range(nx):
            psi[i, j] = flat[k]
            k += 1
    out["psi"] = psi
    out["qpsi"] = np.array(rec.read_5e16_9(nx))
    ln = rec.next()
    try:
        nb, nl = int(ln[0:5]), int(ln[5:10])
    except ValueError:
        raise FormatError("count record is not 2i5: %r" % ln)
    out["nbdry"], out["nlim"] = nb, nl
    if nb > 0:
        v = rec.read_5e16_9(2 * nb)
        out["rbdry"], out["zbdry"] = np.array(v[0::2]), np.array(v[1::2])
    if nl > 0:
        v = rec.read_5e16_9(2 * nl)
        out["rlim"], out["zlim"] = np.array(v[0::2]), np.array(v[1::2])
    rest = [x for x in rec.lines[rec.pos:] if x.strip()]
    if rest:
        raise FormatError("unexpected trailing records: %r" % rest[:2])
    return out
