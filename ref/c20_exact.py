"""C20 reference: exact rational geometry (fractions.Fraction; every float is an exact
rational).  Nothing here looks at hypnotoad.

Vocabulary.  S = closed segment [p, q], p != q.  W = closed polyline with vertices V[0..n-1],
edge k from V[k] to V[(k+1) % n].  |v|oo = max(|v_R|, |v_Z|).

The property excludes configurations that are "parallel or touching within tolerance".
The degenerate class is decided here, exactly, from the inputs alone, with one absolute
clearance DELTA (coordinate units; the lattices live in [0, 6]):

  * an edge and S are *near parallel* when |d x e| <= EPS_PAR |d|oo |e|oo;  a near-parallel
    edge is irrelevant when both its end points lie more than DELTA to one side of line(S),
    or when its extent along the dominant axis of S is more than DELTA away from S's extent;
    otherwise the configuration is degenerate ("parallel overlap");
  * for a non-parallel edge the lines meet at p + t d = a + u e.  With the inside margins
    m_t = min(t, 1-t) |d|oo and m_u = min(u, 1-u) |e|oo (how far, along the dominant
    coordinate, the meeting point is inside the segment / the edge):
       m_t < -DELTA or m_u < -DELTA            -> the edge is clearly missed
       m_t >  DELTA and m_u >  DELTA           -> proper crossing in the interior of both
       otherwise, m_t <= DELTA                 -> an end point of S touches W: degenerate
       otherwise (m_t > DELTA, |m_u| <= DELTA) -> S passes through (within DELTA of) a wall
           vertex: a *vertex crossing* if the two neighbouring vertices lie more than DELTA
           on opposite sides of line(S), degenerate (touching or collinear) if not.

DELTA = 1e-12 is 100 x hypnotoad's documented intersect_tolerance (1e-14, the slack it
allows for end-point hits) so that everything the code may legitimately decide either way,
including the float rounding of its own crossing computation, is inside the excluded class;
on the lattices used nothing else is: the smallest clearance of a judged case is reported by
the check and is many orders of magnitude larger than DELTA.
"""

from fractions import Fraction as F

DELTA = F(1, 10**12)
EPS_PAR = F(1, 10**12)


# smallest |d x e| / (|d|oo |e|oo) over all edge pairs that were treated as non-parallel
# (shows how far the lattice stays from the near-parallel threshold)
STATS = {"min_rel_cross_nonparallel": None, "min_abs_cross_nonparallel": None}


def _note_cross(cr, dn, en):
    r = abs(cr) / (dn * en)
    if STATS["min_rel_cross_nonparallel"] is None or r < STATS["min_rel_cross_nonparallel"]:
        STATS["min_rel_cross_nonparallel"] = r
    a = abs(cr)
    if STATS["min_abs_cross_nonparallel"] is None or a < STATS["min_abs_cross_nonparallel"]:
        STATS["min_abs_cross_nonparallel"] = a


def fr(x):
    return F(float(x))


def pt(P):
    return (fr(P[0]), fr(P[1]))


def _cross(ax, ay, bx, by):
    return ax * by - ay * bx


def _noo(x, y):
    return max(abs(x), abs(y))


class Wall:
    """pre-computed exact edges of a closed polyline"""

    def __init__(self, verts):
        self.V = [pt(v) for v in verts]
        self.n = len(self.V)
        self.edges = []
        for k in range(self.n):
            a = self.V[k]
            b = self.V[(k + 1) % self.n]
            ex, ey = b[0] - a[0], b[1] - a[1]
            self.edges.append((a, b, ex, ey, _noo(ex, ey)))


def classify(p, q, wall):
    """Exact classification of segment [p, q] (tuples of Fractions) against Wall.

    Returns (status, crossings, clearance, reason):
      status 'degenerate' or 'ok'; crossings: list of (kind, index, (R, Z)) with kind
      'edge' (index = edge number) or 'vertex' (index = vertex number), exact points;
      clearance: smallest distance (coordinate units) of any decision from its threshold,
      as a float (only meaningful for 'ok').
    """
    px, py = p
    dx, dy = q[0] - px, q[1] - py
    dn = _noo(dx, dy)
    if dn == 0:
        return "degenerate", [], 0.0, "zero-length segment"
    crossings = []
    vertex_hits = set()
    clearance = None

    def clr(x):
        nonlocal clearance
        if clearance is None or x < clearance:
            clearance = x

    dom = 0 if abs(dx) >= abs(dy) else 1
    s_lo, s_hi = sorted((p[dom], q[dom]))
    for k, (a, b, ex, ey, en) in enumerate(wall.edges):
        wx, wy = a[0] - px, a[1] - py
        cr = _cross(dx, dy, ex, ey)
        if abs(cr) <= EPS_PAR * dn * en:
            oa = _cross(dx, dy, wx, wy) / dn
            ob = _cross(dx, dy, b[0] - px, b[1] - py) / dn
            if (oa > DELTA and ob > DELTA) or (oa < -DELTA and ob < -DELTA):
                clr(min(abs(oa), abs(ob)) - DELTA)
                continue
            e_lo, e_hi = sorted((a[dom], b[dom]))
            gap = max(e_lo - s_hi, s_lo - e_hi)
            if gap > DELTA:
                clr(gap - DELTA)
                continue
            return "degenerate", [], 0.0, "parallel overlap"
        _note_cross(cr, dn, en)
        t = _cross(wx, wy, ex, ey) / cr
        u = _cross(wx, wy, dx, dy) / cr
        mt = min(t, 1 - t) * dn
        mu = min(u, 1 - u) * en
        if mt < -DELTA or mu < -DELTA:
            clr(max(-mt, -mu) - DELTA)
            continue
        if mt > DELTA and mu > DELTA:
            clr(min(mt, mu) - DELTA)
            crossings.append(("edge", k, (px + t * dx, py + t * dy)))
            continue
        if mt <= DELTA:
            return "degenerate", [], 0.0, "segment end point on the wall"
        # interior of S, at (within DELTA of) an end of edge k
        vertex_hits.add(k if 2 * u < 1 else (k + 1) % wall.n)
    for v in sorted(vertex_hits):
        prev = wall.V[(v - 1) % wall.n]
        nxt = wall.V[(v + 1) % wall.n]
        sp = _cross(dx, dy, prev[0] - px, prev[1] - py) / dn
        sn = _cross(dx, dy, nxt[0] - px, nxt[1] - py) / dn
        if abs(sp) <= DELTA or abs(sn) <= DELTA:
            return "degenerate", [], 0.0, "wall edge at a touched vertex lies along the segment"
        if (sp > 0) == (sn > 0):
            return "degenerate", [], 0.0, "segment touches a wall vertex without crossing"
        clr(min(abs(sp), abs(sn)) - DELTA)
        crossings.append(("vertex", v, wall.V[v]))
    return "ok", crossings, float(clearance if clearance is not None else 1e9), ""


def dist2_point_segment(x, a, b):
    """exact squared distance of point x from closed segment [a, b]"""
    ex, ey = b[0] - a[0], b[1] - a[1]
    wx, wy = x[0] - a[0], x[1] - a[1]
    ee = ex * ex + ey * ey
    if ee == 0:
        return wx * wx + wy * wy
    t = (wx * ex + wy * ey) / ee
    if t <= 0:
        return wx * wx + wy * wy
    if t >= 1:
        vx, vy = x[0] - b[0], x[1] - b[1]
        return vx * vx + vy * vy
    c = _cross(ex, ey, wx, wy)
    return c * c / ee


def dist2_point_wall(x, wall):
    return min(dist2_point_segment(x, a, b) for a, b, _, _, _ in wall.edges)


def shoelace2(verts):
    """twice the signed area, exact; positive = anticlockwise (x to the right, y up)"""
    s = F(0)
    n = len(verts)
    for k in range(n):
        x1, y1 = verts[k]
        x2, y2 = verts[(k + 1) % n]
        s += x1 * y2 - x2 * y1
    return s


def edge_list(verts, closed):
    n = len(verts)
    m = n if closed else n - 1
    return [(verts[k], verts[(k + 1) % n]) for k in range(m)]


def polylines_cross(e1, e2, par_abs=0):
    """Exact relation of two edge lists.  par_abs: additional absolute bound on |d x e|
    below which a pair counts as near parallel (polygons.intersect skips |det| < 1e-6).  Returns ('degenerate', reason) if any pair of
    edges touches / overlaps / is near parallel and close (within DELTA), else
    ('ok', True/False): True iff some pair crosses properly (interior of both)."""
    found = False
    for a, b in e1:
        dx, dy = b[0] - a[0], b[1] - a[1]
        dn = _noo(dx, dy)
        if dn == 0:
            continue  # repeated point: a closed two-point "polygon" has none, skip
        dom = 0 if abs(dx) >= abs(dy) else 1
        s_lo, s_hi = sorted((a[dom], b[dom]))
        for c, d in e2:
            ex, ey = d[0] - c[0], d[1] - c[1]
            en = _noo(ex, ey)
            if en == 0:
                continue
            wx, wy = c[0] - a[0], c[1] - a[1]
            cr = _cross(dx, dy, ex, ey)
            if abs(cr) <= max(EPS_PAR * dn * en, par_abs):
                oa = _cross(dx, dy, wx, wy) / dn
                ob = _cross(dx, dy, d[0] - a[0], d[1] - a[1]) / dn
                if (oa > DELTA and ob > DELTA) or (oa < -DELTA and ob < -DELTA):
                    continue
                e_lo, e_hi = sorted((c[dom], d[dom]))
                if max(e_lo - s_hi, s_lo - e_hi) > DELTA:
                    continue
                return "degenerate", "parallel overlap"
            _note_cross(cr, dn, en)
            t = _cross(wx, wy, ex, ey) / cr
            u = _cross(wx, wy, dx, dy) / cr
            mt = min(t, 1 - t) * dn
            mu = min(u, 1 - u) * en
            if mt < -DELTA or mu < -DELTA:
                continue
            if mt > DELTA and mu > DELTA:
                found = True
                continue
            return "degenerate", "touching"
    return "ok", found
