"""C18: analytic test functions (value, gradient) and Romberg finite differences.

Independent of hypnotoad: plain numpy.  Every function object has ``f(R, Z)``,
``grad(R, Z) -> (f_R, f_Z)`` in closed form, a ``domain`` (Rmin, Rmax, Zmin, Zmax) and a
``scale`` (typical size of |f|).
"""

import numpy as np

from vlib import families as fam

DOMAINS = {
    # the corpus' domain (span in R exactly 1 - hides missing 1/Rsize factors, therefore
    # the other functions live on D1)
    "D0": (1.0, 2.0, -0.7, 0.7),
    "D1": (0.8, 2.3, -0.9, 0.6),
    # a tall, narrow box at small major radius: max(Z) > max(R) and |min(Z)| > max(R), so any
    # mix-up between the R and Z extents of the table shows
    "D2": (0.3, 1.1, -1.4, 1.6),
}


class Func:
    def __init__(self, name, domain, f, grad, scale, exact_for=()):
        self.name = name
        self.domain = DOMAINS[domain]
        self.domain_name = domain
        self.f = f
        self.grad = grad
        self.scale = scale
        # interpolation methods that reproduce this function identically between the
        # nodes (cubic polynomial: not-a-knot bicubic spline; cosine mode: dct)
        self.exact_for = tuple(exact_for)


def _gfamily(geom, sigma):
    f = fam.psi_analytic(geom, sigma)
    d = fam.psi_analytic_derivs(f)

    def grad(R, Z):
        r = d(R, Z)
        return r[0], r[1]

    return Func("G:%s:%+d" % (geom, int(sigma)), "D0", f, grad, 1.0)


def _saddle():
    a, b, c, Rx, Zx = 1.3, 0.8, 0.6, 1.43, -0.12

    def f(R, Z):
        R = np.asarray(R, dtype=float)
        Z = np.asarray(Z, dtype=float)
        return a * ((R - Rx) ** 2 - b * (Z - Zx) ** 2) + c * (R - Rx) ** 3

    def grad(R, Z):
        R = np.asarray(R, dtype=float)
        Z = np.asarray(Z, dtype=float)
        return 2 * a * (R - Rx) + 3 * c * (R - Rx) ** 2 + 0 * Z, -2 * a * b * (Z - Zx) + 0 * R

    return Func("saddle", "D1", f, grad, 1.0, exact_for=("spline",))


def _offgauss():
    # (amplitude, Rc, Zc, wR, wZ)
    terms = [(0.8, 1.37, 0.11, 0.25, 0.25), (-0.5, 1.71, -0.33, 0.2, 0.35), (0.35, 1.05, -0.6, 0.3, 0.22)]
    lr, lz = 0.3, -0.2

    def f(R, Z):
        R = np.asarray(R, dtype=float)
        Z = np.asarray(Z, dtype=float)
        out = lr * (R - 1.5) + lz * Z
        for a, rc, zc, wr, wz in terms:
            out = out + a * np.exp(-(((R - rc) / wr) ** 2) - ((Z - zc) / wz) ** 2)
        return out

    def grad(R, Z):
        R = np.asarray(R, dtype=float)
        Z = np.asarray(Z, dtype=float)
        gr = lr + 0 * (R + Z)
        gz = lz + 0 * (R + Z)
        for a, rc, zc, wr, wz in terms:
            g = a * np.exp(-(((R - rc) / wr) ** 2) - ((Z - zc) / wz) ** 2)
            gr = gr - 2 * (R - rc) / wr**2 * g
            gz = gz - 2 * (Z - zc) / wz**2 * g
        return gr, gz

    return Func("offgauss", "D1", f, grad, 1.0)


def _tallgauss():
    # (amplitude, Rc, Zc, wR, wZ) on D2
    terms = [(0.8, 0.72, 0.2, 0.22, 0.5), (-0.45, 0.55, 1.25, 0.2, 0.3), (0.4, 0.8, -1.1, 0.25, 0.28)]
    lr, lz = 0.25, 0.1

    def f(R, Z):
        R = np.asarray(R, dtype=float)
        Z = np.asarray(Z, dtype=float)
        out = lr * (R - 0.7) + lz * Z
        for a, rc, zc, wr, wz in terms:
            out = out + a * np.exp(-(((R - rc) / wr) ** 2) - ((Z - zc) / wz) ** 2)
        return out

    def grad(R, Z):
        R = np.asarray(R, dtype=float)
        Z = np.asarray(Z, dtype=float)
        gr = lr + 0 * (R + Z)
        gz = lz + 0 * (R + Z)
        for a, rc, zc, wr, wz in terms:
            g = a * np.exp(-(((R - rc) / wr) ** 2) - ((Z - zc) / wz) ** 2)
            gr = gr - 2 * (R - rc) / wr**2 * g
            gz = gz - 2 * (Z - zc) / wz**2 * g
        return gr, gz

    return Func("tallgauss", "D2", f, grad, 1.0)


def cosmode(nR, nZ):
    """a function that lies in the span of the DCT-II basis of an nR x nZ grid on D1, so the
    dct interpolant must reproduce it (and its derivatives) everywhere, not only at nodes"""
    Rmin, Rmax, Zmin, Zmax = DOMAINS["D1"]
    dR = (Rmax - Rmin) / (nR - 1)
    dZ = (Zmax - Zmin) / (nZ - 1)
    modes = [(0.7, 3, 2), (0.4, 1, 0), (-0.2, 0, 5), (0.15, 4, 3), (0.1, 0, 0)]

    def f(R, Z):
        x = (np.asarray(R, dtype=float) - Rmin) / dR + 0.5
        y = (np.asarray(Z, dtype=float) - Zmin) / dZ + 0.5
        out = 0.0
        for a, m, n in modes:
            out = out + a * np.cos(np.pi * m * x / nR) * np.cos(np.pi * n * y / nZ)
        return out

    def grad(R, Z):
        x = (np.asarray(R, dtype=float) - Rmin) / dR + 0.5
        y = (np.asarray(Z, dtype=float) - Zmin) / dZ + 0.5
        gr = 0.0 * (x + y)
        gz = 0.0 * (x + y)
        for a, m, n in modes:
            kr = np.pi * m / nR
            kz = np.pi * n / nZ
            gr = gr - a * kr / dR * np.sin(kr * x) * np.cos(kz * y)
            gz = gz - a * kz / dZ * np.cos(kr * x) * np.sin(kz * y)
        return gr, gz

    return Func("cosmode", "D1", f, grad, 1.0, exact_for=("dct",))


def get(name, nR=None, nZ=None):
    if name.startswith("G:"):
        _, geom, sg = name.split(":")
        return _gfamily(geom, float(sg))
    if name == "saddle":
        return _saddle()
    if name == "offgauss":
        return _offgauss()
    if name == "tallgauss":
        return _tallgauss()
    if name == "cosmode":
        return cosmode(nR, nZ)
    raise ValueError(name)


# ---- profiles: cubic in psi, so that an interpolating (not-a-knot) cubic spline through
# samples of it is the cubic itself --------------------------------------------------------
FCOEF = (1.9, 0.45, -0.3, 0.2)
PCOEF = (900.0, -350.0, 120.0, 40.0)


def cubic(coef, x):
    x = np.asarray(x, dtype=float)
    return coef[0] + x * (coef[1] + x * (coef[2] + x * coef[3]))


def cubic_prime(coef, x):
    x = np.asarray(x, dtype=float)
    return coef[1] + x * (2 * coef[2] + x * 3 * coef[3])


# ---- finite differences -------------------------------------------------------------------
def romberg(fun, R, Z, h, axis):
    """d fun/dR (axis 0) or d fun/dZ (axis 1) at the points (R, Z).

    ``fun(R, Z)`` returns an array of shape (nq,) + R.shape (several quantities at once); ``h``
    has R's shape (a step per point).  Five-point central stencil (exact for polynomials of
    degree <= 4) at steps h, h/2, h/4, combined by two Richardson eliminations (h^4 and h^6
    terms).  Returns (estimate, |last correction|): the second value is the customary
    error indication of the extrapolation table.
    """
    T = []
    for k in range(3):
        hk = h / 2.0**k

        def q(s):
            if axis == 0:
                return fun(R + s * hk, Z)
            return fun(R, Z + s * hk)

        T.append((-q(2.0) + 8.0 * q(1.0) - 8.0 * q(-1.0) + q(-2.0)) / (12.0 * hk))
    T1a = (16.0 * T[1] - T[0]) / 15.0
    T1b = (16.0 * T[2] - T[1]) / 15.0
    T2 = (64.0 * T1b - T1a) / 63.0
    return T2, np.abs(T2 - T1b)
