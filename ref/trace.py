"""Independent flux-surface tracing (C05, C06, C10).

For every region and every radial contour (2*nx+1 of them) the consecutive grid points
p_0 .. p_{2ny} (y-faces and centres alternately) are joined by integrating the tangent
field of the checker's own psi interpolant with a tight-tolerance ODE solver; the arc
length and the toroidal-angle integral of Bt/(R|Bp|) = f/(R |grad psi|) between
consecutive points are recorded.  Nothing from hypnotoad's FineContour is used.
"""

import os
import pickle

import numpy as np
from scipy.integrate import solve_ivp

from vlib import gridutil as gu

VERSION = "4"


def contour_points(reg, k, own_end=False):
    """(2ny+1, 2) points of radial contour k of a region, from the side-car arrays.
    own_end: use the region's own last point instead of the one copied from the upper
    neighbour (distances inside hypnotoad are measured to the region's own end point)"""
    R, Z = reg["arrays"]["Rxy"], reg["arrays"]["Zxy"]
    ny = reg["ny"]
    P = np.empty((2 * ny + 1, 2))
    if k % 2 == 0:
        i = k // 2
        P[0::2, 0], P[0::2, 1] = R["corners"][i, :], Z["corners"][i, :]
        P[1::2, 0], P[1::2, 1] = R["xlow"][i, :], Z["xlow"][i, :]
    else:
        i = (k - 1) // 2
        P[0::2, 0], P[0::2, 1] = R["ylow"][i, :], Z["ylow"][i, :]
        P[1::2, 0], P[1::2, 1] = R["centre"][i, :], Z["centre"][i, :]
    if own_end and "own_last" in reg and reg["connections"]["upper"] is not None:
        pin = False
        if k % 2 == 0:
            pm, _ = gu.pinned_corner_mask(reg)
            pin = pm[k // 2, -1]
        if not pin:
            P[-1, :] = reg["own_last"][k]
    return P


def pinned_points(reg, k):
    ny = reg["ny"]
    m = np.zeros(2 * ny + 1, bool)
    if k % 2 == 0:
        pin, _ = gu.pinned_corner_mask(reg)
        m[0::2] = pin[k // 2, :]
    return m


class Tracer:
    def __init__(self, ref, fhat=None, rtol=1e-10, atol=1e-13):
        self.ref = ref
        self.fhat = fhat
        self.rtol, self.atol = rtol, atol

    def segment(self, P, Q):
        """arc length, toroidal angle and miss distance going from P along the flux surface
        through P to the closest approach to Q"""
        ref, fhat = self.ref, self.fhat
        d = Q - P
        L = float(np.hypot(*d))
        if L == 0.0:
            return 0.0, 0.0, 0.0, 0.0
        gR, gZ = ref.grad(P[0], P[1])
        sgn = 1.0 if (-gZ * d[0] + gR * d[1]) > 0 else -1.0

        def rhs(s, y):
            gR, gZ = ref.grad(y[0], y[1])
            gm = np.hypot(gR, gZ)
            tR, tZ = -sgn * gZ / gm, sgn * gR / gm
            dphi = 0.0
            if fhat is not None:
                dphi = float(fhat(ref.psi(y[0], y[1]))) / (y[0] * gm)
            return [tR, tZ, dphi]

        def ev(s, y):
            gR, gZ = ref.grad(y[0], y[1])
            gm = np.hypot(gR, gZ)
            return ((y[0] - Q[0]) * (-sgn * gZ) + (y[1] - Q[1]) * (sgn * gR)) / gm

        ev.terminal = True
        ev.direction = 1.0
        sol = solve_ivp(rhs, (0.0, 4.0 * L + 1e-6), [P[0], P[1], 0.0], method="DOP853",
                        rtol=self.rtol, atol=self.atol, events=ev, max_step=max(L / 8.0, 1e-4))
        if sol.status != 1 or len(sol.t_events[0]) == 0:
            return np.nan, np.nan, np.nan, np.nan
        s = float(sol.t_events[0][0])
        y = sol.y_events[0][0]
        # largest curvature of the flux surface along the traced path (accepted steps)
        pr = np.append(sol.y[0], y[0])
        pz = np.append(sol.y[1], y[1])
        gR, gZ = ref.grad(pr, pz)
        hRR, hZZ, hRZ = ref.hess(pr, pz)
        gm = np.hypot(gR, gZ)
        tR, tZ = -gZ / gm, gR / gm
        kap = float(np.max(np.abs(hRR * tR * tR + 2 * hRZ * tR * tZ + hZZ * tZ * tZ) / gm))
        return s, float(y[2]), float(np.hypot(y[0] - Q[0], y[1] - Q[1])), kap


def trace_artefact(a):
    """dict region myID -> dict(arc, dphi, miss) arrays of shape (2nx+1, 2ny)"""
    from props.C03 import profile_refs

    ref = gu.ref_for(a)
    fh = profile_refs(a)[0] if a.config["fpol"] != "none" else None
    tr = Tracer(ref, fh)
    out = {}
    for reg in a.side["regions"]:
        nx, ny = reg["nx"], reg["ny"]
        arc = np.full((2 * nx + 1, 2 * ny), np.nan)
        dphi = np.full((2 * nx + 1, 2 * ny), np.nan)
        miss = np.full((2 * nx + 1, 2 * ny), np.nan)
        kap = np.full((2 * nx + 1, 2 * ny), np.nan)
        for k in range(2 * nx + 1):
            P = contour_points(reg, k, own_end=True)
            pin = pinned_points(reg, k)
            dom = gu.in_domain(a, P[:, 0], P[:, 1])
            for m in range(2 * ny):
                if pin[m] or pin[m + 1] or not (dom[m] and dom[m + 1]):
                    continue
                arc[k, m], dphi[k, m], miss[k, m], kap[k, m] = tr.segment(P[m], P[m + 1])
        out[reg["myID"]] = dict(arc=arc, dphi=dphi, miss=miss, kappa=kap)
    return out


def _trace_path(path_config):
    from vlib import corpus

    config, path = path_config
    a = corpus.Artefact(config, path)
    t = trace_artefact(a)
    tmp = os.path.join(path, "trace%s.pkl.tmp%d" % (VERSION, os.getpid()))
    with open(tmp, "wb") as f:
        pickle.dump(t, f, protocol=4)
    os.replace(tmp, os.path.join(path, "trace%s.pkl" % VERSION))
    return True


def ensure_traces(arts, log=None):
    """compute (in parallel) and attach .trace to every successful artefact"""
    from concurrent.futures import ProcessPoolExecutor

    todo = [a for a in arts if a.ok and not os.path.exists(os.path.join(a.path, "trace%s.pkl" % VERSION))]
    if todo:
        if log:
            log("tracing flux surfaces independently for %d grids" % len(todo))
        with ProcessPoolExecutor(min(16, os.cpu_count() or 1)) as pool:
            list(pool.map(_trace_path, [(a.config, a.path) for a in todo], chunksize=1))
    for a in arts:
        if a.ok:
            with open(os.path.join(a.path, "trace%s.pkl" % VERSION), "rb") as f:
                a.trace = pickle.load(f)


def curvature_allowance(kappa, nfine, region_len):
    """per-segment relative allowance for the chord error of hypnotoad's Nfine-point fine
    contour: (kappa*h)^2/8 with kappa the largest flux-surface curvature met along the traced
    segment (checker's interpolant) and h the fine-contour spacing (region contour length /
    Nfine).  The theoretical chord error of a polygon is (kappa h)^2/24."""
    h = region_len / nfine
    return np.nan_to_num((kappa * h) ** 2 / 8.0, nan=0.0)
