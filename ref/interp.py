"""Reference interpolants of psi built by the checker from the *input arrays*.

They never call into hypnotoad.  ``SplineRef`` uses scipy's RectBivariateSpline with
default parameters (bicubic, interpolating); ``DCTRef`` is our own vectorised evaluation
of the cosine series defined in doc (DCT-II coefficients, evaluated at continuous index).
"""

import numpy as np
from scipy import fft, interpolate


class SplineRef:
    def __init__(self, R1D, Z1D, psi2D):
        self.R1D = np.asarray(R1D, dtype=float)
        self.Z1D = np.asarray(Z1D, dtype=float)
        self.s = interpolate.RectBivariateSpline(self.R1D, self.Z1D, np.asarray(psi2D, dtype=float))

    def psi(self, R, Z):
        return self.s(R, Z, grid=False)

    def grad(self, R, Z):
        return self.s(R, Z, dx=1, grid=False), self.s(R, Z, dy=1, grid=False)

    def hess(self, R, Z):
        return (self.s(R, Z, dx=2, grid=False), self.s(R, Z, dy=2, grid=False),
                self.s(R, Z, dx=1, dy=1, grid=False))


class DCTRef:
    def __init__(self, R1D, Z1D, psi2D):
        self.R1D = np.asarray(R1D, dtype=float)
        self.Z1D = np.asarray(Z1D, dtype=float)
        a = np.asarray(psi2D, dtype=float)
        nR, nZ = a.shape
        self.nR, self.nZ = nR, nZ
        c = fft.dctn(a, type=2)  # unnormalised: factor 2 per axis
        c = c / (nR * nZ)
        c[0, :] /= 2.0
        c[:, 0] /= 2.0
        self.c = c
        self.kR = np.pi * np.arange(nR) / nR
        self.kZ = np.pi * np.arange(nZ) / nZ
        self.sR = (nR - 1) / (self.R1D[-1] - self.R1D[0])
        self.sZ = (nZ - 1) / (self.Z1D[-1] - self.Z1D[0])

    def _eval(self, R, Z, dr, dz):
        R = np.asarray(R, dtype=float)
        Z = np.asarray(Z, dtype=float)
        shape = np.broadcast(R, Z).shape
        R, Z = np.broadcast_arrays(R, Z)
        iR = ((R.ravel() - self.R1D[0]) * self.sR + 0.5)[:, None] * self.kR[None, :]
        iZ = ((Z.ravel() - self.Z1D[0]) * self.sZ + 0.5)[:, None] * self.kZ[None, :]

        def basis(arg, k, s, d):
            if d == 0:
                return np.cos(arg)
            if d == 1:
                return -np.sin(arg) * (k * s)[None, :]
            return -np.cos(arg) * ((k * s) ** 2)[None, :]

        BR = basis(iR, self.kR, self.sR, dr)
        BZ = basis(iZ, self.kZ, self.sZ, dz)
        out = np.einsum("pm,mn,pn->p", BR, self.c, BZ, optimize=True)
        return out.reshape(shape)

    def psi(self, R, Z):
        return self._eval(R, Z, 0, 0)

    def grad(self, R, Z):
        return self._eval(R, Z, 1, 0), self._eval(R, Z, 0, 1)

    def hess(self, R, Z):
        return self._eval(R, Z, 2, 0), self._eval(R, Z, 0, 2), self._eval(R, Z, 1, 1)


def psi_transform(options):
    """scale applied to psi by reverse_current / psi_divide_twopi"""
    k = 1.0
    if options.get("reverse_current"):
        k *= -1.0
    if options.get("psi_divide_twopi"):
        k /= 2 * np.pi
    return k


def make_ref(R1D, Z1D, psi2D, options):
    k = psi_transform(options)
    method = options.get("psi_interpolation_method", "spline")
    a = np.asarray(psi2D, dtype=float) * k if k != 1.0 else np.asarray(psi2D, dtype=float)
    if method == "dct":
        return DCTRef(R1D, Z1D, a)
    return SplineRef(R1D, Z1D, a)


def newton_critical(ref, R, Z, its=50):
    """Locate a critical point of the reference interpolant from a nearby start."""
    for _ in range(its):
        gR, gZ = ref.grad(R, Z)
        hRR, hZZ, hRZ = ref.hess(R, Z)
        det = hRR * hZZ - hRZ * hRZ
        dR = (hZZ * gR - hRZ * gZ) / det
        dZ = (-hRZ * gR + hRR * gZ) / det
        R, Z = float(R - dR), float(Z - dZ)
        if abs(dR) + abs(dZ) < 1e-14:
            break
    return R, Z
