"""C19: flux functions with analytically known critical points.

Independent of hypnotoad.  A family is a sum of (anisotropic) Gaussians, or a polynomial
saddle, centred on the base point C; ``make(name, shift, sigma)`` returns a function object
translated rigidly by ``shift`` (metres) and multiplied by ``sigma``.  Its critical points
are enumerated by Newton iteration on the *closed-form* gradient and Hessian from a dense
lattice of starting points (complete for these functions: every basin of the Newton map
that matters is hit by several starts), classified by the sign of the analytic Hessian
determinant.
"""

import numpy as np

DOMAIN = (1.0, 2.0, -1.0, 1.0)
# a node of every grid with 33, 65, 97, 129 or 257 points per direction (the thorough tier adds
# 64 and 100x150 points, where it is not), deliberately not the
# centre of the domain
C = (1.375, 0.125)

# (amplitude, dR, dZ, wR, wZ) relative to C
FAMILIES = {
    # one O-point
    "O1": [(1.0, 0.0, 0.0, 0.30, 0.30)],
    # doublet: two O-points and the X-point between them (slightly tilted chain)
    "DBL": [(1.0, 0.02, 0.30, 0.30, 0.30), (1.0, -0.02, -0.30, 0.30, 0.30)],
    # narrow doublet along R: two O-points only 0.26 m apart (but >= 8 cells from 65 points up)
    "DBLR": [(1.0, 0.13, 0.0, 0.13, 0.16), (1.0, -0.13, 0.0, 0.13, 0.16)],
    # connected double null: three equal Gaussians, symmetric chain
    "TRIc": [(1.0, 0.0, 0.0, 0.28, 0.28), (1.0, 0.0, 0.55, 0.28, 0.28), (1.0, 0.0, -0.55, 0.28, 0.28)],
    # disconnected double null, the secondary O-point above is higher than the primary
    "TRId": [(1.0, 0.0, 0.0, 0.27, 0.27), (1.4, 0.02, 0.58, 0.30, 0.30), (0.9, -0.015, -0.53, 0.27, 0.27)],
    # L-shape of anisotropic Gaussians: the X-point nearer in space to the primary O-point is
    # the one *farther* in psi
    "LSH": [(1.0, 0.0, 0.0, 0.16, 0.36), (1.0, 0.42, 0.0, 0.16, 0.36), (1.0, 0.0, -0.80, 0.16, 0.36)],
}
# polynomial saddle a((R-Rx)^2 - b (Z-Zx)^2) + c (R-Rx)^3: one X-point, no O-point in the
# domain (the second critical point of the cubic lies at R = Rx - 2a/(3c), far outside)
SADDLE = (1.0, 0.7, 0.3)
# oblique saddle a (x^2 + m x y + y^2) + c x^3 with m > 2: f_RR f_ZZ > 0, the Hessian
# determinant is negative only through the mixed derivative (second critical point of the cubic
# at x = -2a(1 - m^2/4)/(3c) = +1.25 m away, outside the domain for every shift used)
OBLIQUE = (1.0, 2.5, 0.3)

# Gaussian hill with elliptical contours, "ELL:<kappa>:<tilt in degrees>":
#   exp(-(u^2/a^2 + v^2/(kappa a)^2)),  u, v = coordinates rotated by the tilt about the centre.
# One O-point whose Hessian has a mixed derivative f_RZ of the size of f_RR, f_ZZ: the
# classification by the sign of f_RR f_ZZ - f_RZ^2 depends on the exact weight of f_RZ
# (f_RZ^2 / (f_RR f_ZZ) = 0.36 for kappa 2 at 45 degrees).
ELL_A = 0.24

MIN_POINTS = {"DBLR": 65, "LSH": 65}


def ell_name(kappa, theta):
    return "ELL:%g:%g" % (kappa, theta)


def _ell_coef(name):
    _, k, th = name.split(":")
    k, th = float(k), np.radians(float(th))
    a, b = ELL_A, float(k) * ELL_A
    cs, sn = np.cos(th), np.sin(th)
    A = cs * cs / a**2 + sn * sn / b**2
    B = cs * sn * (1 / a**2 - 1 / b**2)
    Cc = sn * sn / a**2 + cs * cs / b**2
    return A, B, Cc  # smallest number of data points per direction


class Fam:
    def __init__(self, name, shift=(0.0, 0.0), sigma=1.0):
        self.name = name
        self.sigma = float(sigma)
        self.c = (C[0] + shift[0], C[1] + shift[1])
        self.terms = FAMILIES.get(name)
        self.ell = _ell_coef(name) if name.startswith("ELL:") else None
        # narrowest Gaussian width (None for the polynomials)
        if self.terms:
            self.wmin = min(min(t[3], t[4]) for t in self.terms)
        else:
            self.wmin = ELL_A if self.ell else None

    def f(self, R, Z):
        R = np.asarray(R, dtype=float)
        Z = np.asarray(Z, dtype=float)
        if self.ell:
            A, B, Cc = self.ell
            x, y = R - self.c[0], Z - self.c[1]
            return self.sigma * np.exp(-(A * x * x + 2 * B * x * y + Cc * y * y))
        if self.name == "X1":
            a, b, c = SADDLE
            x, y = R - self.c[0], Z - self.c[1]
            return self.sigma * (a * (x * x - b * y * y) + c * x**3)
        if self.name == "XY":
            a, m, c = OBLIQUE
            x, y = R - self.c[0], Z - self.c[1]
            return self.sigma * (a * (x * x + m * x * y + y * y) + c * x**3)
        out = 0.0
        for a, dr, dz, wr, wz in self.terms:
            out = out + a * np.exp(-(((R - self.c[0] - dr) / wr) ** 2) - ((Z - self.c[1] - dz) / wz) ** 2)
        return self.sigma * out

    def derivs(self, R, Z):
        """f_R, f_Z, f_RR, f_ZZ, f_RZ"""
        R = np.asarray(R, dtype=float)
        Z = np.asarray(Z, dtype=float)
        if self.ell:
            A, B, Cc = self.ell
            x, y = R - self.c[0], Z - self.c[1]
            g = self.sigma * np.exp(-(A * x * x + 2 * B * x * y + Cc * y * y))
            qx, qy = 2 * A * x + 2 * B * y, 2 * B * x + 2 * Cc * y
            return -qx * g, -qy * g, (qx * qx - 2 * A) * g, (qy * qy - 2 * Cc) * g, (qx * qy - 2 * B) * g
        if self.name == "X1":
            a, b, c = SADDLE
            x, y = R - self.c[0], Z - self.c[1]
            s = self.sigma
            return (s * (2 * a * x + 3 * c * x * x), s * (-2 * a * b * y), s * (2 * a + 6 * c * x),
                    s * (-2 * a * b) + 0 * x, 0.0 * x)
        if self.name == "XY":
            a, m, c = OBLIQUE
            x, y = R - self.c[0], Z - self.c[1]
            s = self.sigma
            return (s * (a * (2 * x + m * y) + 3 * c * x * x), s * a * (m * x + 2 * y),
                    s * (2 * a + 6 * c * x), s * 2 * a + 0 * x, s * a * m + 0 * x)
        fr = fz = frr = fzz = frz = 0.0
        for a, dr, dz, wr, wz in self.terms:
            x, y = R - self.c[0] - dr, Z - self.c[1] - dz
            g = a * np.exp(-((x / wr) ** 2) - (y / wz) ** 2)
            lr, lz = -2 * x / wr**2, -2 * y / wz**2
            fr = fr + g * lr
            fz = fz + g * lz
            frr = frr + g * (lr * lr - 2 / wr**2)
            fzz = fzz + g * (lz * lz - 2 / wz**2)
            frz = frz + g * lr * lz
        s = self.sigma
        return s * fr, s * fz, s * frr, s * fzz, s * frz

    def newton(self, R, Z, its=60):
        for _ in range(its):
            fr, fz, frr, fzz, frz = self.derivs(R, Z)
            det = frr * fzz - frz * frz
            if not np.isfinite(det) or det == 0.0:
                return None
            dR = (fzz * fr - frz * fz) / det
            dZ = (-frz * fr + frr * fz) / det
            R, Z = float(R - dR), float(Z - dZ)
            if not (abs(R) < 10 and abs(Z) < 10):
                return None
            if abs(dR) + abs(dZ) < 1e-15:
                break
        fr, fz, frr, fzz, frz = self.derivs(R, Z)
        gs = max(abs(float(frr)), abs(float(fzz)), 1e-300)
        if abs(fr) + abs(fz) > 1e-11 * gs:
            return None
        return R, Z, float(frr * fzz - frz * frz)

    def critical_points(self, nstart=(41, 81)):
        """all critical points inside the domain: list of dicts R, Z, psi, kind, det"""
        Rmin, Rmax, Zmin, Zmax = DOMAIN
        found = []
        for r0 in np.linspace(Rmin, Rmax, nstart[0]):
            for z0 in np.linspace(Zmin, Zmax, nstart[1]):
                p = self.newton(r0, z0)
                if p is None:
                    continue
                R, Z, det = p
                if not (Rmin <= R <= Rmax and Zmin <= Z <= Zmax):
                    continue
                # ignore the far field where the function is flat to rounding
                if self.name not in ("X1", "XY") and abs(float(self.f(R, Z))) < 1e-6:
                    continue
                if any(np.hypot(R - q["R"], Z - q["Z"]) < 1e-9 for q in found):
                    continue
                found.append(dict(R=R, Z=Z, psi=float(self.f(R, Z)), det=det,
                                  kind="O" if det > 0 else "X"))
        return found


def names():
    return ["O1", "X1", "XY", "DBL", "DBLR", "TRIc", "TRId", "LSH"]
