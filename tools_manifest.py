#!/usr/bin/env python3
"""Regenerates MANIFEST.json from the table below (keeps it valid at all times)."""
import json, os

HERE = os.path.dirname(os.path.abspath(__file__))
PY = "/venv/bin/python"

CHECKS = {
    "C13": dict(
        engine="E1-sched",
        category="model_checking",
        technique="stateless DFS with state matching over all schedules of the real ParallelMap under a virtual multiprocessing module; feeder-delay deviations 0..2; conformance by free runs on real processes",
        text="All interleavings of parent, workers and queue feeders for every (workers, call history, failing positions) cell of the stated lattice are executed on the unmodified ParallelMap; each terminal observation is compared with the serial path of the same class. Coverage statement, not a sample: no schedule within the lattice blocks, misplaces a result or swallows a failure.",
        note="Trusted: the virtual Queue/Process semantics (per-producer FIFO, atomic transfer, SIGTERM kills a blocked worker); bound to the implementation by free-running real-process runs whose outcomes must be members of the explored outcome sets.",
        design="5/C13",
    ),
}

NOT_APPLICABLE = {}


def main():
    props = [json.loads(l) for l in open(os.path.join(HERE, "properties.jsonl"))]
    ids = [p["id"] for p in props]
    checks = []
    for pid in ids:
        if pid not in CHECKS:
            continue
        c = CHECKS[pid]
        checks.append(dict(
            property_id=pid,
            quick_cmd="%s vcheck.py %s --tier quick" % (PY, pid),
            thorough_cmd="%s vcheck.py %s --tier thorough" % (PY, pid),
            evidence_file="evidence/%s.json" % pid,
            replay_cmd_template="%s vcheck.py %s --replay {path}" % (PY, pid),
            engine=c["engine"],
            level_claimed=dict(category=c["category"], text=c["text"], design_ref="DESIGN.md section " + c["design"]),
            level_note=c["note"],
            technique=c["technique"],
        ))
    na = []
    for pid in ids:
        if pid not in CHECKS:
            na.append(dict(property_id=pid, reason=NOT_APPLICABLE.get(pid, "check not built yet (work in progress); designed in DESIGN.md section 5")))
    man = dict(
        version=1,
        setup_cmd="%s setup.py" % PY,
        hooks=dict(
            guard="HYPNOTOAD_VERIF",
            enable="no source hooks: the harness drives the Python API of /repo's working tree (editable install in /venv) and monkey-patches from outside; HYPNOTOAD_VERIF=1 is exported by vcheck.py for future hooks",
            baseline_off_cmd="cd /repo && /venv/bin/python -m pytest -ra -q -p no:cacheprovider --timeout=900 --continue-on-collection-errors",
            source_commits=[],
            add_only=True,
        ),
        engines=[
            dict(name="E1-sched", path="engine/sched.py", serves_properties=["C13"], kind_free_text="stateless schedule/fault explorer with state matching over the real ParallelMap (virtual multiprocessing)"),
        ],
        checks=checks,
        not_applicable=na,
        notes="See DESIGN.md. known_findings.json lists recorded and fixed defects.",
    )
    with open(os.path.join(HERE, "MANIFEST.json"), "w") as f:
        json.dump(man, f, indent=1)
        f.write("\n")


if __name__ == "__main__":
    main()
