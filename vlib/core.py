"""Shared runner infrastructure: context, violations, known findings, evidence, replay.

Every property module ``props/Cxx.py`` exposes ``run(ctx)`` and optionally
``replay(ctx, payload)``.  ``ctx`` collects coverage counters and violations; the runner
(vcheck.py) turns them into the exit code / VIOLATION / KNOWN-FINDING protocol and writes
``evidence/<id>.json``.
"""

import re
import hashlib
import json
import os
import sys
import time

VERIF = os.path.dirname(os.path.dirname(os.path.abspath(__file__)))
REPO = os.environ.get("VERIF_REPO", "/repo")
# (overridable so that runs against seeded-defect trees do not overwrite the real evidence)
EVIDENCE_DIR = os.environ.get("VERIF_EVIDENCE_DIR") or os.path.join(VERIF, "evidence")
REPLAY_DIR = os.environ.get("VERIF_REPLAY_DIR") or os.path.join(VERIF, "replays")
FINDINGS_FILE = os.path.join(VERIF, "known_findings.json")


def _jsonable(x):
    import numpy as np

    if isinstance(x, dict):
        return {str(k): _jsonable(v) for k, v in x.items()}
    if isinstance(x, (list, tuple, set, frozenset)):
        return [_jsonable(v) for v in x]
    if isinstance(x, np.ndarray):
        if x.size > 64:
            return {"ndarray_shape": list(x.shape), "head": _jsonable(x.ravel()[:8])}
        return _jsonable(x.tolist())
    if isinstance(x, (np.integer,)):
        return int(x)
    if isinstance(x, (np.floating,)):
        x = float(x)
    if isinstance(x, float):
        if x != x:
            return "NaN"
        if x in (float("inf"), float("-inf")):
            return "inf" if x > 0 else "-inf"
        return x
    if isinstance(x, (np.bool_,)):
        return bool(x)
    if isinstance(x, bytes):
        return x.decode("latin-1")
    if isinstance(x, (str, int, bool)) or x is None:
        return x
    return repr(x)


def load_findings():
    if not os.path.exists(FINDINGS_FILE):
        return {"known": [], "fixed": []}
    with open(FINDINGS_FILE) as f:
        return json.load(f)


def sig_match(signature, pattern):
    """known-finding patterns: '*' is the only wildcard, every other character is literal
    (fnmatch would read '[...]' in a signature as a character class)"""
    rx = ".*".join(re.escape(part) for part in pattern.split("*"))
    return re.fullmatch(rx, signature, flags=re.S) is not None


class Ctx:
    def __init__(self, pid, tier, seed, level):
        self.pid = pid
        self.tier = tier
        self.seed = seed
        self.level = level
        self.t0 = time.time()
        self.cov = {}
        self.samples = []
        self.assumptions = []
        self.violations = []  # unlisted
        self.known_hits = {}  # signature -> [count, what, first detail]
        self._findings = [
            f for f in load_findings().get("known", []) if f["property"] == pid
        ]
        self._seen_sig = {}
        self.max_report = 20
        self.notes = []

    # ---- coverage -------------------------------------------------------------------
    def add(self, key, n=1):
        self.cov[key] = self.cov.get(key, 0) + n

    def set(self, key, val):
        self.cov[key] = val

    def setmax(self, key, val):
        if val is None or val != val:
            return
        if key not in self.cov or val > self.cov[key]:
            self.cov[key] = val

    def sample(self, s, limit=6):
        if len(self.samples) < limit:
            self.samples.append(_jsonable(s))

    def assume(self, text):
        if text not in self.assumptions:
            self.assumptions.append(text)

    def log(self, *a):
        print("[%s %6.1fs]" % (self.pid, time.time() - self.t0), *a, flush=True)

    # ---- violations -----------------------------------------------------------------
    def violation(self, signature, detail, replay=None):
        """Report a violation.

        signature: specific string "class | variable | location"; matched against
        known_findings.json (fnmatch patterns allowed there).  detail: dict of what
        failed.  replay: payload sufficient to re-execute exactly this one case.
        """
        for f in self._findings:
            if sig_match(signature, f["signature"]):
                ent = self.known_hits.setdefault(
                    f["signature"], [0, f["what"], _jsonable(detail)]
                )
                ent[0] += 1
                return False
        n = self._seen_sig.get(signature, 0)
        self._seen_sig[signature] = n + 1
        if n == 0 and len(self.violations) < self.max_report:
            payload = {
                "property": self.pid,
                "signature": signature,
                "detail": _jsonable(detail),
                "replay": _jsonable(replay),
                "tier": self.tier,
                "seed": self.seed,
            }
            blob = json.dumps(payload, sort_keys=True, indent=1)
            h = hashlib.sha1(blob.encode()).hexdigest()[:12]
            d = os.path.join(REPLAY_DIR, self.pid)
            os.makedirs(d, exist_ok=True)
            path = os.path.join(d, h + ".json")
            with open(path, "w") as fh:
                fh.write(blob)
            self.violations.append((signature, path, _jsonable(detail)))
        return True

    @property
    def n_violations(self):
        return sum(self._seen_sig.values())

    # ---- finish ---------------------------------------------------------------------
    def finish(self):
        wall = time.time() - self.t0
        cov = dict(self.cov)
        cov.setdefault("samples", self.samples if self.samples else ["<none>"])
        cov["known_findings_hit"] = {
            k: {"count": v[0], "what": v[1]} for k, v in self.known_hits.items()
        }
        cov["violation_signatures"] = dict(self._seen_sig)
        if self.notes:
            cov["notes"] = self.notes
        ev = {
            "property_id": self.pid,
            "tier": self.tier,
            "seed": self.seed,
            "level": self.level,
            "coverage": _jsonable(cov),
            "assumptions": self.assumptions,
            "wall_s": round(wall, 2),
            "violations": self.n_violations,
        }
        os.makedirs(EVIDENCE_DIR, exist_ok=True)
        tmp = os.path.join(EVIDENCE_DIR, self.pid + ".json.tmp")
        with open(tmp, "w") as f:
            json.dump(ev, f, indent=1, sort_keys=True)
            f.write("\n")
        os.replace(tmp, os.path.join(EVIDENCE_DIR, self.pid + ".json"))
        for sig, v in self.known_hits.items():
            print("KNOWN-FINDING: property=%s %s [%s] (x%d)" % (self.pid, v[1], sig, v[0]))
        for sig, path, detail in self.violations:
            print("VIOLATION property=%s replay=%s" % (self.pid, path))
            print("  signature: %s" % sig)
            print("  detail: %s" % json.dumps(detail)[:1500])
        extra = len(self._seen_sig) - len(self.violations)
        if extra > 0:
            print("  (+%d further distinct violation signatures not written)" % extra)
        summary = {
            k: v
            for k, v in cov.items()
            if isinstance(v, (int, float, bool)) and not isinstance(v, dict)
        }
        print("[%s] tier=%s seed=%d wall=%.1fs %s" % (self.pid, self.tier, self.seed, wall, summary))
        sys.stdout.flush()
        return 1 if self.violations else 0


class HarnessError(Exception):
    pass
