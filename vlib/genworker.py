"""Runs ONE configuration through the real hypnotoad pipeline in a fresh interpreter and
dumps everything the oracles need.  Invoked as

    /venv/bin/python -m vlib.genworker <config.json> <outdir>

Writes into outdir:  grid.nc (the real writeGridfile output), side.pkl (in-memory data the
file does not carry), meta.json (outcome, timings, fingerprints), log.txt (stdout tail).
"""

import hashlib
import io
import json
import os
import pickle
import sys
import time
import traceback
import warnings

os.environ.setdefault("MPLBACKEND", "Agg")
import numpy as np  # noqa: E402

HERE = os.path.dirname(os.path.dirname(os.path.abspath(__file__)))
sys.path.insert(0, HERE)
from vlib import families  # noqa: E402


def fp(a):
    if a is None:
        return None
    a = np.ascontiguousarray(np.asarray(a, dtype=float))
    return hashlib.sha1(a.tobytes()).hexdigest()


def mla_dump(m):
    out = {}
    for loc in ("centre", "xlow", "ylow", "corners"):
        arr = getattr(m, "_" + loc + "_array", None)
        if arr is not None:
            out[loc] = np.array(arr)
    return out


def dump_region(region, mesh):
    from hypnotoad.core.multilocationarray import MultiLocationArray

    er = region.equilibriumRegion
    d = dict(
        name=region.name, myID=region.myID, radialIndex=region.radialIndex,
        eqname=er.name, kind=er.kind, nx=region.nx, ny=region.ny,
        ny_noguards=region.ny_noguards, connections=dict(region.connections),
        psi_vals=np.array(region.psi_vals),
        separatrix_radial_index=er.separatrix_radial_index,
        yGroupIndex=region.yGroupIndex,
        skeleton=np.array([[p.R, p.Z] for p in er]),
        skel_startInd=er.startInd, skel_endInd=er.endInd,
        xPointsAtStart=[None if p is None else (p.R, p.Z) for p in er.xPointsAtStart],
        xPointsAtEnd=[None if p is None else (p.R, p.Z) for p in er.xPointsAtEnd],
        wallAtStart=er.wallSurfaceAtStart is not None,
        wallAtEnd=er.wallSurfaceAtEnd is not None,
        arrays={},
    )
    idx = mesh.region_indices[region.myID]
    d["xslice"] = (idx[0].start, idx[0].stop)
    d["yslice"] = (idx[1].start, idx[1].stop)
    for k, v in region.__dict__.items():
        if isinstance(v, MultiLocationArray):
            d["arrays"][k] = mla_dump(v)
    if hasattr(region, "penalty_mask"):
        d["penalty_mask"] = np.array(region.penalty_mask)
    cs = []
    for c in region.contours:
        cs.append(dict(startInd=c.startInd, endInd=c.endInd, psival=c.psival,
                       n=len(c)))
    d["contours"] = cs
    # the region's OWN first and last point of every contour: getRZBoundary overwrites the
    # last y-row of the arrays with the upper neighbour's first row
    if region.contours:
        d["own_first"] = np.array([[c[0].R, c[0].Z] for c in region.contours])
        d["own_last"] = np.array([[c[-1].R, c[-1].Z] for c in region.contours])
    return d


def derivative_probes(mesh):
    """The library's own difference operators (MeshRegion.DDX / DDY, used for ShiftTorsion and
    the x-y curvature formulation) applied to fields that are exactly linear in x (the radial
    psi grid) and in y (cell index times dy, continued through each y-group): the result must
    be 1 at every location, region joins included.  Returns {myID: {"ddx": .., "ddy": ..}}."""
    from hypnotoad.core.multilocationarray import MultiLocationArray

    dyv = float(mesh.dy_scalar)
    for g in mesh.y_groups:
        y0 = 0.0
        for r in g:
            pv = np.array(r.psi_vals, dtype=float)
            fx = MultiLocationArray(r.nx, r.ny)
            fy = MultiLocationArray(r.nx, r.ny)
            jc = y0 + (np.arange(r.ny) + 0.5) * dyv
            jf = y0 + np.arange(r.ny + 1) * dyv
            fx.centre = pv[1::2][:, None] * np.ones((1, r.ny))
            fx.xlow = pv[0::2][:, None] * np.ones((1, r.ny))
            fx.ylow = pv[1::2][:, None] * np.ones((1, r.ny + 1))
            fx.corners = pv[0::2][:, None] * np.ones((1, r.ny + 1))
            fy.centre = np.ones((r.nx, 1)) * jc[None, :]
            fy.xlow = np.ones((r.nx + 1, 1)) * jc[None, :]
            fy.ylow = np.ones((r.nx, 1)) * jf[None, :]
            fy.corners = np.ones((r.nx + 1, 1)) * jf[None, :]
            r.__dict__["verif_x"], r.__dict__["verif_y"] = fx, fy
            y0 += r.ny * dyv
    out = {}
    try:
        for r in mesh.regions.values():
            out[r.myID] = dict(ddx=mla_dump(r.DDX("#verif_x")), ddy=mla_dump(r.DDY("#verif_y")))
    finally:
        for r in mesh.regions.values():
            r.__dict__.pop("verif_x", None)
            r.__dict__.pop("verif_y", None)
    return out


def dump_side(eq, mesh, extra=None):
    side = dict(extra or {})
    e = {}
    for k in ("psi_axis", "psi_bdry", "psi_sep", "double_null_type", "Bt_axis",
              "psi_increasing", "f_psi_sign", "psi_axis_gfile", "psi_bdry_gfile"):
        try:
            if hasattr(eq, k):
                v = getattr(eq, k)
                e[k] = v
        except Exception as ex:  # noqa: BLE001
            e[k] = "ERR:" + repr(ex)
    if hasattr(eq, "o_point") and eq.o_point is not None:
        e["o_point"] = (eq.o_point.R, eq.o_point.Z)
    if hasattr(eq, "x_points"):
        e["x_points"] = [(p.R, p.Z) for p in eq.x_points]
    if hasattr(eq, "wall"):
        e["wall"] = [(p.R, p.Z) for p in eq.wall]
    if hasattr(eq, "closed_wallarray"):
        e["closed_wallarray"] = np.array(eq.closed_wallarray)
    e["regions"] = list(eq.regions.keys())
    e["region_kinds"] = {k: r.kind for k, r in eq.regions.items()}
    e["region_nx"] = {k: list(r.nx) for k, r in eq.regions.items()}
    e["region_ny_noguards"] = {k: r.ny_noguards for k, r in eq.regions.items()}
    e["region_psi_vals"] = {k: [np.array(p) for p in r.psi_vals] for k, r in eq.regions.items()}
    e["connections"] = {k: [dict(c) for c in r.connections] for k, r in eq.regions.items()}
    e["user_options"] = dict(eq.user_options)
    e["nonorthogonal_options"] = dict(eq.nonorthogonal_options)
    side["eq"] = e
    if mesh is not None:
        m = dict(nx=mesh.nx, ny=mesh.ny, ny_noguards=mesh.ny_noguards,
                 dy_scalar=mesh.dy_scalar, x_startinds=list(map(int, mesh.x_startinds)),
                 y_regions_noguards=list(mesh.y_regions_noguards),
                 user_options=dict(mesh.user_options),
                 x_groups=[[r.myID for r in g] for g in mesh.x_groups],
                 y_groups=[[r.myID for r in g] for g in mesh.y_groups],
                 region_lookup={"%s|%d" % k: v for k, v in mesh.region_lookup.items()})
        side["mesh"] = m
        side["regions"] = [dump_region(r, mesh) for r in mesh.regions.values()]
        if all(hasattr(r, "dx") and hasattr(r, "dy") for r in mesh.regions.values()):
            try:
                side["derivative_probes"] = derivative_probes(mesh)
            except Exception as ex:  # noqa: BLE001
                side["derivative_probes_error"] = repr(ex)
    return side


def build_equilibrium(c, inp, out):
    """returns eq (TokamakEquilibrium).  c: normalised config; inp: build_inputs()."""
    from hypnotoad.cases import tokamak

    opts = dict(c["options"])
    non = dict(c["nonorth"]) if c["nonorth"] else None
    arrays = dict(R1D=inp["R1D"].copy(), Z1D=inp["Z1D"].copy(), psi2D=inp["psi2D"].copy(),
                  psi1D=inp["psi1D"].copy(), fpol1D=inp["fpol1D"].copy(),
                  pressure=None if inp["pressure"] is None else inp["pressure"].copy())
    before = {k: fp(v) for k, v in arrays.items()}
    if c["via"] == "api":
        eq = tokamak.TokamakEquilibrium(
            arrays["R1D"], arrays["Z1D"], arrays["psi2D"], arrays["psi1D"], arrays["fpol1D"],
            pressure=arrays["pressure"], wall=inp["wall"], settings=opts,
            nonorthogonal_settings=non,
        )
    elif c["via"] == "gfile":
        text = gfile_text(inp)
        out["geqdsk_text"] = text
        res = tokamak.read_geqdsk(io.StringIO(text), settings=opts, nonorthogonal_settings=non)
        if isinstance(res, tuple):
            raise res[1]
        eq = res
    else:
        raise ValueError(c["via"])
    after = {k: fp(v) for k, v in arrays.items()}
    out["input_fingerprints_before"] = before
    out["input_fingerprints_after"] = after
    return eq


def gfile_data(inp):
    R1D, Z1D = inp["R1D"], inp["Z1D"]
    nx, ny = len(R1D), len(Z1D)
    o, xs = inp["o_point"], inp["x_points"]
    s = np.linspace(0.0, 1.0, nx)
    # geqdsk profiles live on nx points from axis to boundary
    from vlib.families import fpol_function, pressure_function

    data = dict(
        nx=nx, ny=ny, rdim=float(R1D[-1] - R1D[0]), zdim=float(Z1D[-1] - Z1D[0]),
        rcentr=1.5, rleft=float(R1D[0]), zmid=float(0.5 * (Z1D[0] + Z1D[-1])),
        rmagx=o["R"], zmagx=o["Z"], simagx=o["psi"], sibdry=xs[0]["psi"],
        bcentr=1.0, cpasma=1.0e6,
        fpol=np.zeros(nx), pres=np.zeros(nx), qpsi=np.ones(nx), psi=inp["psi2D"].copy(),
    )
    if inp.get("_fpol_kind", "none") != "none":
        data["fpol"] = fpol_function(inp["_fpol_kind"])(s)
    if inp.get("_pressure_kind", "none") != "none":
        data["pres"] = pressure_function(inp["_pressure_kind"])(s)
    if inp["wall"] is not None:
        data["rlim"] = [p[0] for p in inp["wall"]]
        data["zlim"] = [p[1] for p in inp["wall"]]
    return data


def gfile_text(inp):
    from hypnotoad.geqdsk import _geqdsk

    buf = io.StringIO()
    _geqdsk.write(gfile_data(inp), buf, label="verif")
    return buf.getvalue()


GEOM_FIELDS = ("hy", "Bpxy", "Btxy", "Bxy", "psixy", "dphidy", "zShift", "poloidal_distance", "g11", "g22", "g33",
               "g12", "g13", "g23", "J", "g_11", "g_22", "g_33", "g_12", "g_13", "g_23", "curl_bOverB_x",
               "curl_bOverB_y", "curl_bOverB_z")


def history_record(mesh, with_geometry):
    """observable state of a mesh: positions at all four locations; optionally the derived
    geometry, computed on a copy so that the explored state itself is not disturbed"""
    import dill

    rec = {}
    for r in mesh.regions.values():
        rec[r.myID] = dict(name=r.name, Rxy=mla_dump(r.Rxy), Zxy=mla_dump(r.Zxy),
                           psi_vals=np.array(r.psi_vals),
                           xPointsAtStart=[None if p is None else (p.R, p.Z) for p in r.equilibriumRegion.xPointsAtStart],
                           xPointsAtEnd=[None if p is None else (p.R, p.Z) for p in r.equilibriumRegion.xPointsAtEnd],
                           nx=r.nx, ny=r.ny, radialIndex=r.radialIndex)
    if with_geometry:
        # "live": the explored mesh itself has geometry() called in every state (the GUI's
        # write - regrid - write loop), so anything geometry() caches is carried along the history
        m2 = mesh if with_geometry == "live" else dill.loads(dill.dumps(mesh))
        geometry_error = None
        try:
            m2.geometry()
        except Exception as e:  # noqa: BLE001 - an explicit refusal by geometry() is an observable outcome
            geometry_error = "%s: %s" % (type(e).__name__, str(e)[:300])
        if geometry_error is None:
            for r in m2.regions.values():
                rec[r.myID]["fields"] = {k: mla_dump(getattr(r, k)) for k in GEOM_FIELDS if hasattr(r, k)}
    opts = dict(mesh.equilibrium.nonorthogonal_options)
    out = dict(regions=rec, nonorthogonal_options=opts, user_options=dict(mesh.user_options),
               eq_user_options=dict(mesh.equilibrium.user_options))
    if with_geometry and geometry_error is not None:
        out["geometry_error"] = geometry_error
    return out


def build_circular(c):
    from hypnotoad.cases import circular
    from hypnotoad.core.mesh import BoutMesh

    opts = dict(c["options"])
    eq = circular.CircularEquilibrium(settings=opts)
    mesh = BoutMesh(eq, opts)
    mesh.geometry()
    return eq, mesh


def run_buildseq(config, outdir):
    """C14: a sequence of complete builds in ONE interpreter; the artefacts of the last one are
    kept.  config["seq"]: list of member configs; config["share_arrays"]: hand the same array
    objects to consecutive identical builds."""
    from hypnotoad.core.mesh import BoutMesh

    meta = dict(config=config, outcome=None, builds=[])
    warnings.simplefilter("ignore")
    shared = None
    try:
        for k, mc in enumerate(config["seq"]):
            last = k == len(config["seq"]) - 1
            if mc.get("family", "G") == "circular":
                eq, mesh = build_circular(mc)
                extra = {}
            else:
                c = families.normalise(mc)
                if config.get("share_arrays") and shared is not None:
                    inp = shared
                else:
                    inp = families.build_inputs(c)
                    inp["_fpol_kind"] = c["fpol"]
                    inp["_pressure_kind"] = c["pressure"]
                    shared = inp
                extra = {}
                if config.get("share_arrays"):
                    # no defensive copies: this is the caller's-arrays clause
                    from hypnotoad.cases import tokamak

                    before = {kk: fp(inp[kk]) for kk in ("R1D", "Z1D", "psi2D", "psi1D", "fpol1D", "pressure")}
                    eq = tokamak.TokamakEquilibrium(inp["R1D"], inp["Z1D"], inp["psi2D"], inp["psi1D"], inp["fpol1D"],
                                                    pressure=inp["pressure"], wall=inp["wall"],
                                                    settings=dict(c["options"]),
                                                    nonorthogonal_settings=dict(c["nonorth"]) if c["nonorth"] else None)
                    extra["input_fingerprints_before"] = before
                    extra["input_fingerprints_after"] = {kk: fp(inp[kk]) for kk in before}
                else:
                    eq = build_equilibrium(c, inp, extra)
                mesh = BoutMesh(eq, dict(c["options"]))
                mesh.geometry()
            meta["builds"].append(mc.get("label", "?"))
            if last:
                path = os.path.join(outdir, "grid.nc")
                mesh.writeGridfile(path)
                with open(os.path.join(outdir, "side.pkl"), "wb") as f:
                    pickle.dump(dict(extra, eq=dict(user_options=dict(eq.user_options))), f, protocol=4)
        meta["outcome"] = "ok"
    except BaseException as e:  # noqa: BLE001
        meta["outcome"] = "exception"
        meta["exc_type"] = type(e).__name__
        meta["exc_msg"] = str(e)[:2000]
        meta["traceback"] = traceback.format_exc()[-3000:]
    return meta


def run_history(c, eq, outdir, meta):
    """E2: breadth-first exploration of redistributePoints histories from one start state with
    dill snapshots of the live mesh.  c["alphabet"]: list of settings dicts; c["first"]: indices
    of the first transitions explored by this process; c["depth"]."""
    import dill
    from hypnotoad.core.mesh import BoutMesh

    mesh = BoutMesh(eq, dict(c["options"]))
    mesh.calculateRZ()
    geo = "live" if c.get("geometry_each") else True
    rec0 = history_record(mesh, geo)
    root = dill.dumps(mesh)
    meta["snapshot_bytes"] = len(root)
    out = {(): rec0}
    alphabet = c["alphabet"]
    frontier = [((), root)]
    for depth in range(1, c["depth"] + 1):
        nxt = []
        for hist, snap in frontier:
            for k, settings in enumerate(alphabet):
                if depth == 1 and k not in c["first"]:
                    continue
                h = hist + (k,)
                m = dill.loads(snap)
                try:
                    m.redistributePoints(dict(settings))
                    m.calculateRZ()
                except Exception as e:  # noqa: BLE001 - a refusal is an observable outcome
                    out[h] = dict(refused="%s: %s" % (type(e).__name__, str(e)[:300]))
                    continue
                out[h] = history_record(m, geo)
                if depth < c["depth"]:
                    nxt.append((h, dill.dumps(m)))
        frontier = nxt
    with open(os.path.join(outdir, "history.pkl"), "wb") as f:
        pickle.dump(out, f, protocol=4)
    meta["histories"] = len(out)


def build_equilibrium_X(c, inp, out, outdir):
    """isolated X-point through the TORPEX g-file path (no sympy needed)"""
    from hypnotoad.cases import torpex
    from hypnotoad.geqdsk import _geqdsk

    R1D, Z1D = inp["R1D"], inp["Z1D"]
    nx, ny = len(R1D), len(Z1D)
    f = inp["analytic"]
    data = dict(nx=nx, ny=ny, rdim=float(R1D[-1] - R1D[0]), zdim=float(Z1D[-1] - Z1D[0]), rcentr=1.0,
                rleft=float(R1D[0]), zmid=float(0.5 * (Z1D[0] + Z1D[-1])), rmagx=1.0, zmagx=0.0,
                simagx=float(f(1.0, 0.0)), sibdry=0.0, bcentr=inp["Bt_axis"], cpasma=0.0,
                fpol=inp["Bt_axis"] * np.ones(nx), pres=np.zeros(nx), qpsi=np.zeros(nx), psi=inp["psi2D"].copy())
    data["rlim"] = [p[0] for p in inp["wall"]]
    data["zlim"] = [p[1] for p in inp["wall"]]
    path = os.path.join(outdir, "xpoint.g")
    with open(path, "w") as fh:
        _geqdsk.write(data, fh, label="verif")
    with open(path) as fh:
        out["geqdsk_text"] = fh.read()
    eq = torpex.TORPEXMagneticField({"gfile": path}, dict(c["options"]))
    eq.makeRegions()
    return eq


def run_config(config, outdir):
    c = families.normalise(config)
    meta = dict(config=c, stages={}, outcome=None)
    t0 = time.time()
    warnings.simplefilter("ignore")
    stage = "inputs"
    eq = mesh = None
    side_extra = {}
    try:
        inp = families.build_inputs(c)
        inp["_fpol_kind"] = c["fpol"]
        inp["_pressure_kind"] = c["pressure"]
        if c.get("extrapolate_to"):
            # extrapolate_profiles needs psi_sol and psi_sol_inner as psi values: given here as a
            # normalised-psi fraction and resolved with the family's own critical points
            ax, sep = inp["o_point"]["psi"], inp["x_points"][0]["psi"]
            ps = float(ax + c["extrapolate_to"] * (sep - ax))
            c["options"] = dict(c["options"], extrapolate_profiles=True, psi_sol=ps, psi_sol_inner=ps)
            c["options"].pop("psinorm_sol", None)
            c["options"].pop("psinorm_sol_inner", None)
        stage = "equilibrium"
        if c["family"] == "X":
            eq = build_equilibrium_X(c, inp, side_extra, outdir)
        else:
            eq = build_equilibrium(c, inp, side_extra)
        meta["stages"]["equilibrium"] = time.time() - t0
        if c["kind"] == "history":
            stage = "history"
            run_history(c, eq, outdir, meta)
            meta["outcome"] = "ok"
        elif c["kind"] == "equilibrium":
            side = dump_side(eq, None, side_extra)
            with open(os.path.join(outdir, "side.pkl"), "wb") as f:
                pickle.dump(side, f, protocol=4)
            meta["outcome"] = "ok"
        else:
            from hypnotoad.core.mesh import BoutMesh

            stage = "mesh"
            mopts = dict(c["options"])
            if c["family"] == "X":
                # as hypnotoad.cases.torpex.createMesh does: pick up the equilibrium's defaults
                mopts.update(eq.user_options)
            mopts.update(c.get("mesh_options_override", {}))
            mesh = BoutMesh(eq, mopts)
            meta["stages"]["mesh"] = time.time() - t0
            snaps = []
            if c.get("geometry_first"):
                # the GUI's write - regrid - write loop: geometry() already ran on this mesh
                # before the points are redistributed
                stage = "geometry(first)"
                mesh.geometry()
            for k, step in enumerate(c["post"]):
                stage = "redistribute[%d]" % k
                # "<option>__times": factor applied to the option's current (evaluated) value
                step = {(kk[:-7] if kk.endswith("__times") else kk):
                        (float(mesh.equilibrium.nonorthogonal_options[kk[:-7]]) * vv if kk.endswith("__times") else vv)
                        for kk, vv in step.items()}
                side_extra.setdefault("post_resolved", []).append(dict(step))
                mesh.redistributePoints(step)
                mesh.calculateRZ()
                if c.get("snapshot_each"):
                    snaps.append({r.myID: {"Rxy": mla_dump(r.Rxy), "Zxy": mla_dump(r.Zxy)}
                                  for r in mesh.regions.values()})
            if snaps:
                side_extra["post_snapshots"] = snaps
            stage = "geometry"
            mesh.geometry()
            meta["stages"]["geometry"] = time.time() - t0
            stage = "write"
            path = os.path.join(outdir, "grid.nc")
            if os.path.exists(path):
                os.remove(path)
            mesh.writeGridfile(path)
            meta["stages"]["write"] = time.time() - t0
            stage = "dump"
            side = dump_side(eq, mesh, side_extra)
            with open(os.path.join(outdir, "side.pkl"), "wb") as f:
                pickle.dump(side, f, protocol=4)
            meta["outcome"] = "ok"
    except BaseException as e:  # noqa: BLE001
        meta["outcome"] = "exception"
        meta["stage"] = stage
        meta["exc_type"] = type(e).__name__
        meta["exc_msg"] = str(e)[:2000]
        meta["traceback"] = traceback.format_exc()[-4000:]
        if side_extra:
            try:
                with open(os.path.join(outdir, "side_partial.pkl"), "wb") as f:
                    pickle.dump(side_extra, f, protocol=4)
            except Exception:  # noqa: BLE001
                pass
    meta["wall_s"] = time.time() - t0
    return meta


def main():
    cfgpath, outdir = sys.argv[1], sys.argv[2]
    with open(cfgpath) as f:
        config = json.load(f)
    os.makedirs(outdir, exist_ok=True)
    log = open(os.path.join(outdir, "log.txt"), "w")
    real_stdout = os.dup(1)
    os.dup2(log.fileno(), 1)
    os.dup2(log.fileno(), 2)
    try:
        if config.get("family", "G") == "X":
            meta = run_config(config, outdir)
        elif config.get("family", "G") == "buildseq":
            t0 = time.time()
            meta = run_buildseq(config, outdir)
            meta["wall_s"] = time.time() - t0
        elif config.get("family", "G") == "circular":
            t0 = time.time()
            meta = dict(config=config, outcome=None)
            try:
                warnings.simplefilter("ignore")
                eq, mesh = build_circular(config)
                mesh.writeGridfile(os.path.join(outdir, "grid.nc"))
                meta["outcome"] = "ok"
            except BaseException as e:  # noqa: BLE001
                meta.update(outcome="exception", exc_type=type(e).__name__, exc_msg=str(e)[:2000])
            meta["wall_s"] = time.time() - t0
        elif config.get("family", "G") == "G":
            meta = run_config(config, outdir)
        else:
            from vlib import genother

            meta = genother.run_config(config, outdir)
    finally:
        sys.stdout.flush()
        os.dup2(real_stdout, 1)
    with open(os.path.join(outdir, "meta.json.tmp"), "w") as f:
        json.dump(meta, f, indent=1, default=str)
    os.replace(os.path.join(outdir, "meta.json.tmp"), os.path.join(outdir, "meta.json"))
    # With number_of_processors > 1 the ParallelMap workers are non-daemon processes that wait
    # for tasks for ever; multiprocessing's exit handler would join them unless the mesh has
    # been garbage collected first (the hypnotoad scripts `del eq, mesh; gc.collect()` for the
    # same reason).  Everything is on disk: leave without running exit handlers.
    log.flush()
    os._exit(0)


if __name__ == "__main__":
    main()
