"""Generation through the command-line entry points and example scripts (C12, C14).

config["family"]:
  "cli-geqdsk":  geom/sigma/... as family G -> geqdsk file written with the repository's
                 writer; options from config["yaml_file"] (path relative to /repo) and/or
                 config["options"] (dict, dumped to yaml); runs hypnotoad-geqdsk.
  "example":     examples/tokamak/tokamak_example.py <geometry> --no-plot in a scratch copy
  "cli-circular": hypnotoad-circular with config["options"]
  "recreate":    grid from cli-geqdsk, then hypnotoad-recreate-inputs on it and
                 hypnotoad-geqdsk on the recreated inputs (second grid kept as grid2.nc)
"""

import json
import os
import shutil
import subprocess
import sys
import time

REPO = os.environ.get("VERIF_REPO", "/repo")


def _run(cmd, cwd, timeout):
    env = dict(os.environ)
    env["MPLBACKEND"] = "Agg"
    t0 = time.time()
    try:
        p = subprocess.run(cmd, cwd=cwd, env=env, stdout=subprocess.PIPE, stderr=subprocess.STDOUT,
                           timeout=timeout, text=True, errors="replace")
        return dict(returncode=p.returncode, tail=p.stdout[-3000:], wall=time.time() - t0)
    except subprocess.TimeoutExpired as e:
        out = e.stdout or ""
        if isinstance(out, bytes):
            out = out.decode("latin-1", "replace")
        return dict(returncode=None, tail=out[-3000:], wall=time.time() - t0, timeout=True)


def _last_exception(tail):
    lines = [l for l in tail.strip().splitlines() if l.strip()]
    for l in reversed(lines):
        if ":" in l and not l.startswith(" ") and ("Error" in l.split(":")[0] or "Exception" in l.split(":")[0]
                                                     or "TimedOut" in l.split(":")[0] or "Warning" not in l.split(":")[0]):
            return l[:500]
    return lines[-1][:500] if lines else ""


def run_config(config, outdir):
    import yaml

    fam = config["family"]
    meta = dict(config=config, outcome=None, steps=[])
    work = os.path.join(outdir, "work")
    os.makedirs(work, exist_ok=True)
    timeout = config.get("step_timeout", 600)
    py = sys.executable
    try:
        if fam in ("cli-geqdsk", "recreate"):
            from vlib import families, genworker

            c = families.normalise({k: v for k, v in config.items() if k in families.BASE and k != "family"})
            inp = families.build_inputs(c)
            inp["_fpol_kind"] = c["fpol"]
            inp["_pressure_kind"] = c["pressure"]
            text = genworker.gfile_text(inp)
            with open(os.path.join(work, "eq.geqdsk"), "w") as f:
                f.write(text)
            with open(os.path.join(outdir, "input.geqdsk"), "w") as f:
                f.write(text)
            opts = {}
            if config.get("yaml_file"):
                with open(os.path.join(REPO, config["yaml_file"])) as f:
                    opts = yaml.safe_load(f) or {}
            opts.update(config.get("options", {}))
            if config.get("raw_yaml_text") is not None:
                ytext = config["raw_yaml_text"]
            else:
                ytext = yaml.dump(opts)
            with open(os.path.join(work, "in.yaml"), "w") as f:
                f.write(ytext)
            r = _run([py, "-m", "hypnotoad.scripts.hypnotoad_geqdsk", "eq.geqdsk", "in.yaml"], work, timeout)
            meta["steps"].append(dict(step="hypnotoad-geqdsk", **r))
            gridname = opts.get("grid_file", "bout.grd.nc") if isinstance(opts, dict) else "bout.grd.nc"
            gpath = os.path.join(work, gridname)
            if r["returncode"] == 0 and os.path.exists(gpath):
                shutil.copy(gpath, os.path.join(outdir, "grid.nc"))
                meta["outcome"] = "ok"
            else:
                meta["outcome"] = "timeout" if r.get("timeout") else "exception"
                meta["exc_msg"] = _last_exception(r["tail"])
            if fam == "recreate" and meta["outcome"] == "ok":
                w2 = os.path.join(work, "re")
                os.makedirs(w2, exist_ok=True)
                shutil.copy(gpath, os.path.join(w2, "first.grd.nc"))
                r = _run([py, "-m", "hypnotoad.scripts.hypnotoad_recreate_inputs", "first.grd.nc"], w2, timeout)
                meta["steps"].append(dict(step="hypnotoad-recreate-inputs", **r))
                files = sorted(os.listdir(w2))
                meta["recreated_files"] = files
                ys = [f for f in files if f.endswith((".yml", ".yaml"))]
                gs = [f for f in files if f.endswith((".eqdsk", ".geqdsk", ".g")) or "geqdsk" in f.lower() or "eqdsk" in f.lower()]
                if r["returncode"] != 0 or not ys or not gs:
                    meta["outcome"] = "recreate-failed"
                    meta["exc_msg"] = _last_exception(r["tail"])
                else:
                    shutil.copy(os.path.join(w2, gs[0]), os.path.join(outdir, "recreated.geqdsk"))
                    shutil.copy(os.path.join(w2, ys[0]), os.path.join(outdir, "recreated.yaml"))
                    r = _run([py, "-m", "hypnotoad.scripts.hypnotoad_geqdsk", gs[0], ys[0]], w2, timeout)
                    meta["steps"].append(dict(step="hypnotoad-geqdsk(recreated)", **r))
                    with open(os.path.join(w2, ys[0])) as f:
                        o2 = yaml.safe_load(f) or {}
                    g2 = os.path.join(w2, o2.get("grid_file", "bout.grd.nc"))
                    if r["returncode"] == 0 and os.path.exists(g2):
                        shutil.copy(g2, os.path.join(outdir, "grid2.nc"))
                    else:
                        meta["outcome"] = "regenerate-failed"
                        meta["exc_msg"] = _last_exception(r["tail"])
        elif fam == "example":
            src = os.path.join(REPO, "examples", "tokamak")
            for f in os.listdir(src):
                shutil.copy(os.path.join(src, f), work)
            r = _run([py, "tokamak_example.py", config["geometry"], "--no-plot"] + list(config.get("args", [])), work, timeout)
            meta["steps"].append(dict(step="tokamak_example.py", **r))
            gpath = os.path.join(work, "bout.grd.nc")
            if r["returncode"] == 0 and os.path.exists(gpath):
                shutil.copy(gpath, os.path.join(outdir, "grid.nc"))
                meta["outcome"] = "ok"
            else:
                meta["outcome"] = "timeout" if r.get("timeout") else "exception"
                meta["exc_msg"] = _last_exception(r["tail"])
        elif fam == "cli-circular":
            with open(os.path.join(work, "in.yaml"), "w") as f:
                f.write(config.get("raw_yaml_text") if config.get("raw_yaml_text") is not None
                        else yaml.dump(config.get("options", {})))
            r = _run([py, "-m", "hypnotoad.scripts.hypnotoad_circular", "in.yaml"], work, timeout)
            meta["steps"].append(dict(step="hypnotoad-circular", **r))
            gpath = os.path.join(work, config.get("options", {}).get("grid_file", "bout.grd.nc"))
            if r["returncode"] == 0 and os.path.exists(gpath):
                shutil.copy(gpath, os.path.join(outdir, "grid.nc"))
                meta["outcome"] = "ok"
            else:
                meta["outcome"] = "timeout" if r.get("timeout") else "exception"
                meta["exc_msg"] = _last_exception(r["tail"])
        else:
            raise ValueError("unknown family %r" % fam)
    finally:
        shutil.rmtree(work, ignore_errors=True)
    meta["wall_s"] = sum(s["wall"] for s in meta["steps"])
    return meta
