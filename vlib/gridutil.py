"""Helpers shared by grid oracles: reference interpolant for an artefact, region iteration,
corpus selection."""

import numpy as np

from ref import interp
from . import corpus, lattice

_ROUND = np.vectorize(lambda v: float("%.9E" % v))


def input_psi(art):
    """psi2D exactly as hypnotoad received it (before its own sign/scale options)"""
    inp = art.inputs
    psi2D = inp["psi2D"]
    if art.config.get("via") == "gfile":
        psi2D = _ROUND(psi2D)
    return inp["R1D"], inp["Z1D"], psi2D


def ref_for(art):
    if getattr(art, "_ref", None) is None:
        R1D, Z1D, psi2D = input_psi(art)
        art._ref = interp.make_ref(R1D, Z1D, psi2D, art.side["eq"]["user_options"])
    return art._ref


def psi_scale(art):
    R1D, Z1D, psi2D = input_psi(art)
    k = interp.psi_transform(art.side["eq"]["user_options"])
    return float(np.max(np.abs(psi2D)) * abs(k))


LOCS = ("centre", "xlow", "ylow", "corners")


def expected_psi(region, loc):
    """psi value each point of the location should have: (n,1) column broadcastable"""
    pv = region["psi_vals"]
    if loc in ("centre", "ylow"):
        return pv[1::2][:, None]
    return pv[0::2][:, None]


def pinned_corner_mask(region):
    """boolean (nx+1, ny+1): corners replaced by an X-point position, with the X-point"""
    nx, ny = region["nx"], region["ny"]
    mask = np.zeros((nx + 1, ny + 1), dtype=bool)
    xp = {}
    ri = region["radialIndex"]
    s, e = region["xPointsAtStart"], region["xPointsAtEnd"]
    for (i, j, p) in ((0, 0, s[ri]), (nx, 0, s[ri + 1]), (0, ny, e[ri]), (nx, ny, e[ri + 1])):
        if p is not None:
            mask[i, j] = True
            xp[(i, j)] = p
    return mask, xp


def select(tier, need_ok=True, tags=None, pred=None, log=None, extra=None):
    members = lattice.corpus(tier)
    if extra:
        members = members + list(extra)
    if tags is not None:
        members = [m for m in members if set(m.get("tags", [])) & set(tags)]
    if pred is not None:
        members = [m for m in members if pred(m)]
    arts = corpus.ensure(members, log=log)
    return arts


def rotate(seq, seed):
    seq = list(seq)
    if not seq:
        return seq
    k = seed % len(seq)
    return seq[k:] + seq[:k]


def in_domain(art, R, Z, margin=None):
    """points inside the rectangle covered by the input psi array, less a margin of two
    input cells (outside it there is no equilibrium data: the interpolants extrapolate,
    hypnotoad's fine contours stop at the edge, and no property says anything there)"""
    inp = art.inputs
    R1, Z1 = inp["R1D"], inp["Z1D"]
    if margin is None:
        margin = 2.0 * max(R1[1] - R1[0], Z1[1] - Z1[0])
    with np.errstate(invalid="ignore"):
        return ((R >= R1[0] + margin) & (R <= R1[-1] - margin) & (Z >= Z1[0] + margin)
                & (Z <= Z1[-1] - margin))
