"""E3-grid corpus: base configurations, single deviations, pair lattice (DESIGN.md 4.3).

A corpus member is a config dict (see families.BASE).  ``corpus(tier)`` returns the list of
members with a ``label`` and ``tags`` (a set of strings oracles use to select members).
"""

import copy

from . import families

TOPOS = ["lsn", "usn", "cdn", "udn", "ldn", "udn2"]
TOPOS_ALL = TOPOS + ["ldn2"]


def mk(geom, orth=True, label=None, tags=(), opt=None, non=None, **kw):
    o = families.base_options(geom, orth)
    if opt:
        for k, v in opt.items():
            if v == "__del__":
                o.pop(k, None)
            else:
                o[k] = v
    c = dict(geom=geom, options=o, nonorth=dict(non or {}))
    c.update(kw)
    dev = []
    if opt:
        dev.append(",".join("%s=%s" % kv for kv in sorted(opt.items())))
    if non:
        dev.append(",".join("%s=%s" % kv for kv in sorted(non.items())))
    for k, v in sorted(kw.items()):
        dev.append("%s=%s" % (k, v))
    c["label"] = label or "%s/%s/%s" % (geom, "orth" if orth else "nonorth", ";".join(dev) or "base")
    c["tags"] = sorted(set(tags) | {"base"} if not dev else set(tags))
    return c


def mkx(orth=True, sigma=1.0, opt=None, tags=()):
    """isolated X-point (four legs on the TORPEX wall)"""
    d = 3.0e-4
    o = dict(nx_core=2, nx_sol=2, ny_inner_lower_divertor=3, ny_inner_upper_divertor=3,
             ny_outer_upper_divertor=3, ny_outer_lower_divertor=3, psi_core=-d * sigma, psi_sol=d * sigma,
             y_boundary_guards=1, finecontour_Nfine=50, orthogonal=orthogonal_default(orth),
             psi_spacing_separatrix_multiplier=0.5, refine_timeout=None, number_of_processors=1,
             refine_width=4.0e-2)
    if opt:
        o.update(opt)
    c = dict(family="X", geom="xpt", sigma=sigma, fpol="const", pressure="none", wall="torpex", via="gfile",
             options=o, nonorth={})
    c["label"] = "xpt/%s/sigma=%+d%s" % ("orth" if orth else "nonorth", int(sigma),
                                          (";" + ",".join("%s=%s" % kv for kv in sorted(opt.items()))) if opt else "")
    c["tags"] = sorted(set(tags) | {"xpt"})
    return c


def orthogonal_default(orth):
    return bool(orth)


def base_members(topos=TOPOS):
    out = []
    for g in topos:
        for orth in (True, False):
            out.append(mk(g, orth))
    return out


def quick_deviations():
    """single deviations that flip a branch of the code, chosen to stay cheap"""
    out = []
    # sign of psi (psi decreasing outwards), both modes, on a single and a double null
    for g in ("lsn", "udn"):
        for orth in (True, False):
            out.append(mk(g, orth, sigma=-1.0, tags=["sigma"]))
    # guard cells 0 and 2
    for orth in (True, False):
        out.append(mk("lsn", orth, opt=dict(y_boundary_guards=0), tags=["guards"]))
        out.append(mk("lsn", orth, opt=dict(y_boundary_guards=2, ny_inner_divertor=6, ny_outer_divertor=6), tags=["guards"]))
    out.append(mk("cdn", True, opt=dict(y_boundary_guards=0), tags=["guards"]))
    # slanted wall
    out.append(mk("lsn", False, wall="W6", tags=["wall"]))
    out.append(mk("lsn", True, wall="W2", tags=["wall"]))
    out.append(mk("cdn", False, wall="W2", tags=["wall"]))
    out.append(mk("usn", False, wall="W6m", tags=["wall"]))
    # re-entrant wall: the outermost SOL surfaces of the outer lower leg meet the baffle first
    out.append(mk("lsn", False, wall="W7", opt=dict(nx_sol=3, psinorm_sol=1.3), tags=["wall"]))
    out.append(mk("usn", False, wall="W7m", opt=dict(nx_sol=3, psinorm_sol=1.3), tags=["wall"]))
    # a slightly unbalanced double null gridded as connected (nx_inter_sep=0): the two X-points
    # lie on slightly different flux surfaces, all radial segments still meet at psi_sep[0]
    for orth in (True, False):
        out.append(mk("udn1", orth, opt=dict(nx_inter_sep=0), tags=["sizes"]))
    out.append(mk("ldn1", True, opt=dict(nx_inter_sep=0), sigma=-1.0, tags=["sizes", "sigma"]))
    # tight perpendicular-following tolerances (every piece of a radial line must honour them)
    out.append(mk("lsn", True, opt=dict(follow_perpendicular_rtol=2e-11, follow_perpendicular_atol=1e-11), tags=["fp"]))
    out.append(mk("ldn", True, opt=dict(follow_perpendicular_rtol=2e-11, follow_perpendicular_atol=1e-11), tags=["fp"]))
    # the whole equilibrium and wall above Z = 0 (machine coordinates), wall given clockwise from
    # a corner such that the implied closing segment is the horizontal one far from Z = 0
    out.append(mk("lsn", True, affine=[1.0, 0.0, 1.0, 1.2], wall="W0", tags=["wall", "affine"]))
    out.append(mk("usn", False, affine=[1.0, 0.0, 1.0, -1.3], wall="W1", tags=["wall", "affine"]))
    # a grid written after "geometry(), redistributePoints(), geometry()" on one mesh (the GUI's
    # write - regrid - write loop) and one after a plain redistribution
    out.append(mk("lsn", False, geometry_first=True, tags=["history"],
                  post=[dict(nonorthogonal_xpoint_poloidal_spacing_length__times=0.4,
                             nonorthogonal_target_all_poloidal_spacing_range__times=2.0)]))
    # slanted targets without boundary guard cells (contours must be extended to reach the wall)
    out.append(mk("lsn", False, wall="W6", opt=dict(y_boundary_guards=0), tags=["wall", "guards"]))
    out.append(mk("cdn", False, wall="W2", opt=dict(y_boundary_guards=0), tags=["wall", "guards"]))
    # anticlockwise wall input
    out.append(mk("lsn", True, wall="W1", tags=["wall"]))
    # sign/scale options
    out.append(mk("lsn", True, opt=dict(reverse_current=True), tags=["signs"]))
    out.append(mk("lsn", True, opt=dict(reverse_Bt=True), tags=["signs"]))
    out.append(mk("lsn", True, opt=dict(psi_divide_twopi=True), tags=["signs"]))
    # unequal legs / radial sizes
    out.append(mk("lsn", True, opt=dict(ny_outer_divertor=7, nx_core=3, nx_sol=4), tags=["sizes"]))
    out.append(mk("udn", True, opt=dict(ny_outer_upper_divertor=5, nx_inter_sep=2), tags=["sizes"]))
    # unequal inner / outer core halves: cells differ in size across the periodic core join
    out.append(mk("cdn", True, opt=dict(ny_inner_sol=3, ny_outer_sol=5), tags=["sizes", "asym"]))
    out.append(mk("cdn", False, opt=dict(ny_inner_sol=3, ny_outer_sol=5), tags=["sizes", "asym"]))
    # Bp capped at X-point y-faces (psi increasing outwards: the cap only bites for Bp > 0)
    out.append(mk("lsn", True, sigma=-1.0, opt=dict(cap_Bp_ylow_xpoint=True), tags=["capBp"]))
    # more than one processor (the same artefact serves C13's differential comparison)
    out.append(mk("lsn", False, opt=dict(number_of_processors=2), tags=["np"]))
    # affine image of the equilibrium: R span 1.1 starting at 0.35, Z stretched 2.5x and shifted
    # (zmid != 0, max(Z) > max(R)); also through the geqdsk path
    AFF = [1.1, -0.75, 2.5, 0.3]
    out.append(mk("usn", True, affine=AFF, tags=["affine"]))
    out.append(mk("lsn", False, affine=AFF, tags=["affine"]))
    out.append(mk("cdn", True, affine=AFF, via="gfile", tags=["affine", "gfile"]))
    # isolated X-point topology (TORPEX g-file path)
    out.append(mkx(True, 1.0))
    out.append(mkx(True, -1.0))
    # inner and outer SOL of different radial extent: the two inner legs share one psi grid, the
    # two outer legs another
    out.append(mkx(True, 1.0, opt=dict(psi_sol_inner=2.0e-4)))
    # (non-orthogonal isolated X-point: refused with the 'line' refine method and does not
    # terminate with refine_timeout=None and the integrate methods - not a corpus member)
    # profile grid that extends beyond the separatrix; quadratic fpol
    out.append(mk("lsn", True, profile_ext=True, fpol="quad", tags=["profiles"]))
    out.append(mk("ldn", True, profile_ext=True, fpol="quad", tags=["profiles"]))
    out.append(mk("lsn", False, profile_ext=True, fpol="quad", tags=["profiles"]))
    # extrapolate_profiles: the SOL lies beyond the end of the profile grid
    out.append(mk("lsn", True, extrapolate_to=1.12, fpol="quad", tags=["profiles"]))
    out.append(mk("udn", True, extrapolate_to=1.12, fpol="linear", sigma=-1.0, tags=["profiles", "sigma"]))
    # through the geqdsk path
    out.append(mk("lsn", True, via="gfile", tags=["gfile"]))
    # x-y derivative curvature
    out.append(mk("lsn", True, opt=dict(curvature_type="curl(b/B) with x-y derivatives"), tags=["curv"]))
    # dct interpolation (slow: one member in the quick tier)
    out.append(mk("lsn", True, opt=dict(psi_interpolation_method="dct"), nR=33, nZ=41, tags=["dct"]))
    return out


def thorough_deviations():
    out = []
    for g in TOPOS:
        for orth in (True, False):
            T = dict(geom=g, orth=orth)

            def m(**kw):
                out.append(mk(T["geom"], T["orth"], **kw))

            m(sigma=-1.0, tags=["sigma"])
            m(opt=dict(y_boundary_guards=0), tags=["guards"])
            m(opt=dict(y_boundary_guards=2, ny_inner_divertor=6, ny_outer_divertor=6), tags=["guards"])
            m(opt=dict(y_boundary_guards=3, ny_inner_divertor=8, ny_outer_divertor=8), tags=["guards"])
            for w in ("W1", "W2", "W3", "W6", "W6m"):
                m(wall=w, tags=["wall"])
            m(opt=dict(reverse_current=True), tags=["signs"])
            m(opt=dict(reverse_Bt=True), tags=["signs"])
            m(opt=dict(psi_divide_twopi=True), tags=["signs"])
            m(opt=dict(nx_core=3, nx_sol=4), tags=["sizes"])
            m(opt=dict(ny_outer_divertor=7), tags=["sizes"])
            m(opt=dict(ny_inner_divertor=5, ny_sol=7), tags=["sizes"])
            for mult in (0.2, 1.0, 2.0):
                m(opt=dict(psi_spacing_separatrix_multiplier=mult), tags=["radial"])
            m(opt=dict(psinorm_core=0.95, psinorm_sol=1.05), tags=["radial"])
            m(opt=dict(psinorm_core=0.8, psinorm_sol=1.18), tags=["radial"])
            m(opt=dict(psinorm_pf=0.93), tags=["radial"])
            m(opt=dict(poloidal_spacing_method="monotonic"), tags=["pol"])
            m(opt=dict(poloidal_spacing_method="linear"), tags=["pol"])
            m(opt=dict(xpoint_poloidal_spacing_length=0.025), tags=["pol"])
            m(opt=dict(xpoint_poloidal_spacing_length=0.1), tags=["pol"])
            m(opt=dict(target_all_poloidal_spacing_length=0.05), tags=["pol"])
            m(opt=dict(target_all_poloidal_spacing_length=0.2), tags=["pol"])
            m(profile_ext=True, fpol="quad", tags=["profiles"])
            m(fpol="const", pressure="none", tags=["profiles"])
            m(nR=33, nZ=41, tags=["res"])
            m(nR=65, nZ=129, tags=["res"])
            m(nR=129, nZ=165, tags=["res"])
            m(opt=dict(finecontour_Nfine=100), tags=["nfine"])
            m(opt=dict(follow_perpendicular_rtol=2e-6, follow_perpendicular_atol=1e-6), tags=["fp"])
            m(opt=dict(follow_perpendicular_rtol=2e-10, follow_perpendicular_atol=1e-10), tags=["fp"])
            m(via="gfile", tags=["gfile"])
            m(affine=[1.1, -0.75, 2.5, 0.3], tags=["affine"])
            m(affine=[0.8, 0.4, 1.3, -0.2], via="gfile", tags=["affine", "gfile"])
            if orth:
                m(opt=dict(curvature_type="curl(b/B) with x-y derivatives"), tags=["curv"])
                m(opt=dict(refine_methods="line"), tags=["refine"])
            else:
                for meth in ("poloidal_orthogonal_combined", "perp_orthogonal_combined", "combined", "orthogonal"):
                    m(non=dict(nonorthogonal_spacing_method=meth), tags=["nonorth"])
                m(non=dict(nonorthogonal_xpoint_poloidal_spacing_range=0.05), tags=["nonorth"])
                m(non=dict(nonorthogonal_target_all_poloidal_spacing_range=0.4), tags=["nonorth"])
                m(non=dict(nonorthogonal_radial_range_power=1.0), tags=["nonorth"])
            if g in ("udn", "ldn", "cdn", "udn2"):
                m(opt=dict(start_at_upper_outer=True), tags=["upper_outer"])
            if g in ("udn", "ldn", "udn2"):
                m(opt=dict(nx_inter_sep=2), tags=["sizes"])
            if g in ("cdn", "udn", "ldn", "udn2"):
                m(opt=dict(ny_inner_sol=3, ny_outer_sol=5), tags=["sizes", "asym"])
                m(opt=dict(ny_inner_sol=5, ny_outer_sol=3, ny_inner_lower_divertor=5, ny_outer_upper_divertor=4), tags=["sizes", "asym"])
        out.append(mk(g, True, opt=dict(psi_interpolation_method="dct"), nR=33, nZ=41, tags=["dct"]))
    out.append(mk("lsn", False, opt=dict(psi_interpolation_method="dct"), nR=33, nZ=41, tags=["dct"]))
    out.append(mk("lsn", False, opt=dict(number_of_processors=2), tags=["np"]))
    return out


def corpus(tier):
    members = base_members() + quick_deviations()
    if tier == "thorough":
        members += thorough_deviations()
        members += base_members(["ldn2"])
    seen = set()
    out = []
    for c in members:
        h = families.config_hash(c)
        if h in seen:
            continue
        seen.add(h)
        out.append(c)
    return out


def strip(c):
    c = copy.deepcopy(c)
    return c
