"""Input alphabet: analytic equilibrium families, profiles, walls (DESIGN.md section 4).

Everything here is independent of hypnotoad: plain numpy/scipy.  A *config* is a JSON-able
dict; ``build_inputs(config)`` returns the arrays handed to hypnotoad, and the analytic
function they were sampled from so that oracles have a closed form as well.
"""

import copy
import hashlib
import json

import numpy as np
from scipy.optimize import brentq

R0 = 1.5
Z0 = 0.3
A = 0.3


def _g(R, Z, zc):
    return np.exp(-((R - R0) ** 2 + (Z - zc) ** 2) / A**2)


# centres (in Z) and amplitudes of the Gaussians of each geometry of the repository's
# example family; "usn" is the exact mirror image of "lsn"
GEOM = {
    "lsn": [(0.0, 1.0), (-0.6, 1.0)],
    "usn": [(0.0, 1.0), (0.6, 1.0)],
    "cdn": [(0.0, 1.0), (-0.6, 1.0), (0.6, 1.0)],
    "udn": [(0.0, 1.0), (-0.602, 1.0), (0.6, 1.0)],
    "ldn": [(0.0, 1.0), (-0.6, 1.0), (0.603, 1.0)],
    "udn2": [(0.0, 1.0), (-0.62, 1.0), (0.6, 1.0)],
    "ldn2": [(0.0, 1.0), (-0.6, 1.0), (0.62, 1.0)],
    # almost balanced: the X-points differ in psi by less than one radial cell, so the double null
    # can be gridded as connected (nx_inter_sep=0) although psi_sep[0] != psi_sep[1]
    "udn1": [(0.0, 1.0), (-0.6002, 1.0), (0.6, 1.0)],
    "ldn1": [(0.0, 1.0), (-0.6, 1.0), (0.6003, 1.0)],
}


def psi_analytic(geom, sigma=1.0, mirror=False):
    terms = GEOM[geom]
    if mirror:
        terms = [(-zc, a) for zc, a in terms]

    def f(R, Z):
        R = np.asarray(R, dtype=float)
        Z = np.asarray(Z, dtype=float)
        out = 0.0
        for zc, a in terms:
            out = out + a * _g(R, Z, zc)
        return sigma * out

    f.terms = terms
    f.sigma = sigma
    return f


def psi_analytic_derivs(f):
    """first and second derivatives of the Gaussian-sum family, analytic"""
    terms, sigma = f.terms, f.sigma

    def d(R, Z):
        R = np.asarray(R, dtype=float)
        Z = np.asarray(Z, dtype=float)
        fr = fz = frr = fzz = frz = 0.0
        for zc, a in terms:
            g = a * _g(R, Z, zc)
            dr = -2 * (R - R0) / A**2
            dz = -2 * (Z - zc) / A**2
            fr = fr + g * dr
            fz = fz + g * dz
            frr = frr + g * (dr * dr - 2 / A**2)
            fzz = fzz + g * (dz * dz - 2 / A**2)
            frz = frz + g * dr * dz
        return sigma * fr, sigma * fz, sigma * frr, sigma * fzz, sigma * frz

    return d


def critical_points_on_axis(f, zlo=-0.69, zhi=0.69):
    """All members of the family are symmetric about R=R0, so critical points lie on
    R=R0; find zeros of dpsi/dZ there by bracketing on a fine ladder."""
    d = psi_analytic_derivs(f)
    zs = np.linspace(zlo, zhi, 2801)
    fz = d(R0, zs)[1]
    out = []
    for i in range(len(zs) - 1):
        if fz[i] == 0.0 or fz[i] * fz[i + 1] < 0:
            z = brentq(lambda z: float(d(R0, z)[1]), zs[i], zs[i + 1], xtol=1e-15)
            _, _, frr, fzz, frz = d(R0, z)
            det = frr * fzz - frz**2
            out.append(dict(R=R0, Z=float(z), psi=float(f(R0, z)), kind="O" if det > 0 else "X"))
    return out


def axis_and_separatrices(f, zlim=0.69):
    cps = critical_points_on_axis(f, -zlim, zlim)
    os_ = [c for c in cps if c["kind"] == "O"]
    xs = [c for c in cps if c["kind"] == "X"]
    o = min(os_, key=lambda c: abs(c["Z"]))
    xs = sorted(xs, key=lambda c: abs(c["psi"] - o["psi"]))
    return o, xs


# ---- walls ------------------------------------------------------------------------
def wall_points(name, mirror=False):
    rmin, rmax, zmin, zmax = 1.2, 1.8, -0.5, 0.5
    if name == "W0":  # the example's (given clockwise)
        w = [(rmin, zmin), (rmin, zmax), (rmax, zmax), (rmax, zmin)]
    elif name == "W1":  # anticlockwise
        w = [(rmin, zmin), (rmax, zmin), (rmax, zmax), (rmin, zmax)]
    elif name in ("W2", "W3"):  # all four corners cut: slanted targets
        c = 0.17
        w = [
            (rmin + c, zmin), (rmax - c, zmin), (rmax, zmin + c), (rmax, zmax - c),
            (rmax - c, zmax), (rmin + c, zmax), (rmin, zmax - c), (rmin, zmin + c),
        ]
        if name == "W3":  # every edge subdivided into 8 collinear pieces
            ww = []
            for i in range(len(w)):
                a, b = np.array(w[i]), np.array(w[(i + 1) % len(w)])
                for k in range(8):
                    p = a + (b - a) * k / 8.0
                    ww.append((float(p[0]), float(p[1])))
            w = ww
    elif name == "W4":  # leaves an upper X-point (Z>0.35) outside
        w = [(rmin, zmin), (rmax, zmin), (rmax, 0.27), (rmin, 0.27)]
    elif name == "W5":  # cuts the core (hostile)
        w = [(rmin, zmin), (rmax, zmin), (rmax, -0.1), (rmin, -0.1)]
    elif name == "W6m":  # mirror image of W6
        return wall_points("W6", not mirror)
    elif name == "W6":  # asymmetric slants: different angles at each target
        w = [
            (rmin + 0.05, zmin), (rmax - 0.22, zmin - 0.04), (rmax, zmin + 0.12),
            (rmax, zmax - 0.2), (rmax - 0.1, zmax + 0.03), (rmin + 0.2, zmax),
            (rmin, zmax - 0.08), (rmin, zmin + 0.15),
        ]
    elif name == "W7m":
        return wall_points("W7", not mirror)
    elif name == "W7":  # re-entrant: a baffle enters from the outboard side above the outer lower target
        w = [
            (rmin, zmin), (rmax, zmin), (rmax, zmin + 0.04), (1.657, zmin + 0.04),
            (1.6115, zmin + 0.12), (rmax, zmin + 0.12), (rmax, zmax), (rmin, zmax),
        ]
    elif name == "none":
        return None
    else:
        raise ValueError(name)
    if mirror:
        w = [(r, -z) for r, z in w]
    return [(float(r), float(z)) for r, z in w]


# ---- profiles ---------------------------------------------------------------------
def fpol_function(kind):
    """f as a function of normalised psi"""
    if kind == "none":
        return None
    if kind == "const":
        return lambda s: 2.0 + 0.0 * s
    if kind == "linear":
        return lambda s: 2.0 + 0.35 * s
    if kind == "quad":
        return lambda s: 2.0 + 0.2 * s - 0.45 * s * s
    raise ValueError(kind)


def pressure_function(kind):
    if kind == "none":
        return None
    if kind == "smooth":
        return lambda s: 1.0e3 * (0.05 + np.exp(-3.0 * s * s))
    raise ValueError(kind)


BASE = dict(
    family="G", geom="lsn", sigma=1.0, mirror=False, nR=65, nZ=83, zmax=0.9,
    # affine map of the whole equilibrium and wall: R' = a*R + b, Z' = c*Z + d  ([a, b, c, d]).
    # The base family has R in [1,2] (span exactly 1), Z symmetric about 0 and max(Z) < max(R):
    # the "affine" members break all three coincidences
    affine=[1.0, 0.0, 1.0, 0.0],
    fpol="linear", pressure="smooth", profile_ext=False, nprof=65,
    wall="W0", via="api", options={}, nonorth={}, post=[], kind="grid",
)


def normalise(config):
    c = copy.deepcopy(BASE)
    c.update(copy.deepcopy(config))
    return c


def config_hash(config):
    c = normalise(config)
    for k in ("label", "tags", "watchdog_s"):
        c.pop(k, None)
    return hashlib.sha1(json.dumps(c, sort_keys=True).encode()).hexdigest()[:16]


# ---- family X: isolated X-point (TORPEX g-file path) --------------------------------------
XP = dict(Rx=0.97, Zx=0.02, A=0.05, b=0.8, c3=0.4)


def psi_xpoint(sigma=1.0):
    Rx, Zx, A, b, c3 = XP["Rx"], XP["Zx"], XP["A"], XP["b"], XP["c3"]

    def f(R, Z):
        R = np.asarray(R, dtype=float)
        Z = np.asarray(Z, dtype=float)
        x, y = R - Rx, Z - Zx
        return sigma * A * (x * x - b * y * y + c3 * x**3)

    return f


def torpex_wall():
    th = np.linspace(0.0, 2.0 * np.pi, 100, endpoint=False)
    return [(float(1.0 + 0.2 * np.cos(t)), float(0.0 + 0.2 * np.sin(t))) for t in th]


def build_inputs_X(c):
    f = psi_xpoint(c["sigma"])
    R1D = np.linspace(0.76, 1.24, c.get("nR", 49))
    Z1D = np.linspace(-0.24, 0.24, c.get("nZ", 49))
    R2D, Z2D = np.meshgrid(R1D, Z1D, indexing="ij")
    psi2D = f(R2D, Z2D)
    xp = dict(R=XP["Rx"], Z=XP["Zx"], psi=0.0, kind="X")
    bt = 0.077
    return dict(R1D=R1D, Z1D=Z1D, psi2D=psi2D, psi1D=np.array([]), fpol1D=np.array([]), pressure=None,
                wall=torpex_wall(), analytic=f, o_point=None, x_points=[xp], snorm=None, Bt_axis=bt)


def build_inputs(config):
    if config.get("family", "G") == "X":
        return build_inputs_X(normalise(config))
    c = normalise(config)
    if c["family"] != "G":
        raise ValueError("build_inputs handles families G and X")
    f0 = psi_analytic(c["geom"], c["sigma"], c["mirror"])
    a_, b_, c_, d_ = c["affine"]
    if [a_, b_, c_, d_] == [1.0, 0.0, 1.0, 0.0]:
        f = f0
    else:
        def f(R, Z, f0=f0):
            return f0((np.asarray(R, dtype=float) - b_) / a_, (np.asarray(Z, dtype=float) - d_) / c_)
    R1D = a_ * np.linspace(1.0, 2.0, c["nR"]) + b_
    Z1D = c_ * np.linspace(-c["zmax"], c["zmax"], c["nZ"]) + d_
    R2D, Z2D = np.meshgrid(R1D, Z1D, indexing="ij")
    psi2D = f(R2D, Z2D)
    o, xs = axis_and_separatrices(f0, c["zmax"] - 0.01)
    o = dict(o, R=a_ * o["R"] + b_, Z=c_ * o["Z"] + d_)
    xs = [dict(x, R=a_ * x["R"] + b_, Z=c_ * x["Z"] + d_) for x in xs]
    psi_ax, psi_sep = o["psi"], xs[0]["psi"]
    smax = 1.3 if c["profile_ext"] else 1.0
    s = np.linspace(0.0, smax, c["nprof"])
    psi1D = psi_ax + s * (psi_sep - psi_ax)
    ff = fpol_function(c["fpol"])
    pf = pressure_function(c["pressure"])
    fpol1D = ff(s) if ff is not None else np.array([])
    pres = pf(s) if pf is not None else None
    return dict(
        R1D=R1D, Z1D=Z1D, psi2D=psi2D, psi1D=psi1D, fpol1D=np.asarray(fpol1D, dtype=float),
        pressure=None if pres is None else np.asarray(pres, dtype=float),
        wall=None if wall_points(c["wall"], c["mirror"]) is None else
        [(a_ * r + b_, c_ * z + d_) for r, z in wall_points(c["wall"], c["mirror"])],
        analytic=f, o_point=o, x_points=xs,
        snorm=s,
    )


# ---- base option sets ---------------------------------------------------------------
def base_options(geom, orthogonal=True):
    """Smallest sizes that generate, per topology (DESIGN.md 4.3)."""
    o = dict(
        nx_core=2, nx_sol=2, nx_inter_sep=1,
        ny_inner_divertor=3, ny_outer_divertor=3, ny_sol=4,
        y_boundary_guards=1, finecontour_Nfine=50,
        psi_spacing_separatrix_multiplier=0.5,
        refine_timeout=None, orthogonal=orthogonal,
        number_of_processors=1,
    )
    if geom in ("lsn", "usn"):
        o.pop("nx_inter_sep")
    if geom == "cdn":
        o["nx_inter_sep"] = 0
        o["ny_sol"] = 6
    if geom in ("udn", "ldn", "udn2", "ldn2", "udn1", "ldn1"):
        o["ny_sol"] = 6
    return o
