"""Corpus cache: generated artefacts keyed by (tree hash of /repo/hypnotoad, config hash).

``ensure(configs)`` generates whatever is missing, 16 configurations at a time, each in a
fresh subprocess under a watchdog, and returns Artefact objects.
"""

import glob
import hashlib
import json
import os
import pickle
import shutil
import signal
import subprocess
import sys
import time
from concurrent.futures import ThreadPoolExecutor

from . import core, families

CACHE = os.path.join(core.VERIF, ".cache")
GEN_VERSION = "3"
_treehash = None


def treehash():
    global _treehash
    if _treehash is None:
        h = hashlib.sha256()
        h.update(GEN_VERSION.encode())
        root = os.path.join(core.REPO, "hypnotoad")
        files = []
        for dp, dn, fn in os.walk(root):
            dn[:] = sorted(d for d in dn if d not in ("test_suite", "gui", "__pycache__"))
            for f in sorted(fn):
                if f.endswith(".py"):
                    files.append(os.path.join(dp, f))
        # shipped inputs that the entry-point runs consume
        for pat in ("*.yaml", "examples/tokamak/*", "examples/torpex-xpoint/*", "integrated_tests/*/*.yml"):
            files += sorted(glob.glob(os.path.join(core.REPO, pat)))
        for extra in ("vlib/genworker.py", "vlib/families.py", "vlib/genother.py"):
            p = os.path.join(core.VERIF, extra)
            if os.path.exists(p):
                files.append(p)
        for p in files:
            h.update(p.encode())
            with open(p, "rb") as f:
                h.update(f.read())
        _treehash = h.hexdigest()[:20]
    return _treehash


def treedir():
    d = os.path.join(CACHE, treehash())
    if not os.path.isdir(d):
        os.makedirs(d, exist_ok=True)
        _evict()
    else:
        try:
            os.utime(d, None)  # mark as in use
        except OSError:
            pass
    return d


def _evict(keep=6, min_age_s=3 * 3600):
    """drop caches of old trees (disk is limited), but never one that another concurrent run
    (e.g. a check against a seeded-defect tree) may be using: only directories untouched for
    three hours, beyond the `keep` most recent"""
    try:
        ds = [d for d in glob.glob(os.path.join(CACHE, "*")) if os.path.isdir(d)]
        ds.sort(key=os.path.getmtime, reverse=True)
        cur = os.path.join(CACHE, treehash())
        now = time.time()
        for d in ds[keep:]:
            if d != cur and now - os.path.getmtime(d) > min_age_s:
                shutil.rmtree(d, ignore_errors=True)
    except OSError:
        pass


class Artefact:
    def __init__(self, config, path):
        self.config = families.normalise(config) if config.get("family", "G") in ("G", "X") else config
        self.path = path
        with open(os.path.join(path, "meta.json")) as f:
            self.meta = json.load(f)
        self._side = None
        self._nc = None
        self._inputs = None

    @property
    def ok(self):
        return self.meta["outcome"] == "ok"

    @property
    def outcome(self):
        return self.meta["outcome"]

    @property
    def side(self):
        if self._side is None:
            with open(os.path.join(self.path, "side.pkl"), "rb") as f:
                self._side = pickle.load(f)
        return self._side

    @property
    def ncpath(self):
        return os.path.join(self.path, "grid.nc")

    @property
    def nc(self):
        """dict name -> numpy array / scalar / str of every variable of the grid file"""
        if self._nc is None:
            import netCDF4
            import numpy as np

            out = {}
            with netCDF4.Dataset(self.ncpath) as ds:
                ds.set_auto_mask(False)
                for k, v in ds.variables.items():
                    a = v[...]
                    if isinstance(a, (str, bytes)):
                        a = a if isinstance(a, str) else a.decode("latin-1")
                    elif a.dtype.kind in "SU" or a.dtype == object:
                        try:
                            if a.dtype.kind == "S":
                                a = b"".join(a.ravel().tolist()).decode("latin-1")
                            else:
                                a = "".join(str(x) for x in np.atleast_1d(a).ravel())
                        except Exception:  # noqa: BLE001
                            pass
                    elif a.ndim == 0:
                        a = a.item()
                    else:
                        a = np.array(a)
                    out[k] = a
                out["__attrs__"] = {k: ds.getncattr(k) for k in ds.ncattrs()}
                out["__dims__"] = {k: tuple(v.dimensions) for k, v in ds.variables.items()}
            self._nc = out
        return self._nc

    @property
    def inputs(self):
        if self._inputs is None:
            self._inputs = families.build_inputs(self.config)
        return self._inputs

    def label(self):
        c = self.config
        return c.get("label") or short_label(c)


def short_label(c):
    if c.get("family", "G") != "G":
        return "%s:%s" % (c.get("family"), json.dumps({k: v for k, v in c.items() if k not in ("family",)}, sort_keys=True)[:150])
    base = families.BASE
    parts = [c["geom"]]
    for k in sorted(c):
        if k in ("geom", "options", "nonorth", "label", "family"):
            continue
        if c[k] != base.get(k):
            parts.append("%s=%s" % (k, c[k]))
    o = c.get("options", {})
    parts.append("orth" if o.get("orthogonal", True) else "nonorth")
    parts.append(json.dumps({k: v for k, v in o.items() if k != "orthogonal"}, sort_keys=True))
    if c.get("nonorth"):
        parts.append(json.dumps(c["nonorth"], sort_keys=True))
    return " ".join(parts)


def _hash(config):
    if config.get("family", "G") in ("G", "X"):
        return families.config_hash(config)
    return hashlib.sha1(json.dumps(config, sort_keys=True).encode()).hexdigest()[:16]


def _generate_one(args):
    config, final, timeout = args
    if os.path.exists(os.path.join(final, "meta.json")):
        return
    tmp = final + ".tmp.%d.%d" % (os.getpid(), int(time.time() * 1e6) % 1000000)
    os.makedirs(tmp, exist_ok=True)
    cfgpath = os.path.join(tmp, "config.json")
    with open(cfgpath, "w") as f:
        json.dump(config, f, sort_keys=True)
    env = dict(os.environ)
    env["MPLBACKEND"] = "Agg"
    env["PYTHONHASHSEED"] = "0"
    env["PYTHONPATH"] = core.VERIF + os.pathsep + env.get("PYTHONPATH", "")
    t0 = time.time()
    p = subprocess.Popen(
        [sys.executable, "-m", "vlib.genworker", cfgpath, tmp],
        cwd=core.VERIF, env=env, stdout=subprocess.DEVNULL, stderr=subprocess.DEVNULL,
        start_new_session=True,
    )
    timed_out = False
    try:
        p.wait(timeout=timeout)
    except subprocess.TimeoutExpired:
        timed_out = True
    finally:
        try:
            os.killpg(p.pid, signal.SIGKILL)
        except (ProcessLookupError, PermissionError):
            pass
        p.wait()
    mpath = os.path.join(tmp, "meta.json")
    if not os.path.exists(mpath):
        meta = dict(config=config, outcome="timeout" if timed_out else "crash",
                    wall_s=time.time() - t0, returncode=p.returncode, watchdog_s=timeout)
        try:
            with open(os.path.join(tmp, "log.txt")) as f:
                meta["log_tail"] = f.read()[-3000:]
        except OSError:
            pass
        with open(mpath, "w") as f:
            json.dump(meta, f, indent=1)
    try:
        os.rename(tmp, final)
    except OSError:
        shutil.rmtree(tmp, ignore_errors=True)


def ensure(configs, nproc=None, timeout=420, log=None):
    """Generate missing artefacts (in parallel) and return Artefacts in the order given."""
    td = treedir()
    todo = []
    paths = []
    seen = set()
    for c in configs:
        h = _hash(c)
        final = os.path.join(td, h)
        paths.append(final)
        if h in seen:
            continue
        seen.add(h)
        if not os.path.exists(os.path.join(final, "meta.json")):
            todo.append((c, final, c.get("watchdog_s", timeout)))
    if todo:
        if log:
            log("generating %d of %d artefacts (tree %s)" % (len(todo), len(configs), treehash()))
        nproc = nproc or min(16, os.cpu_count() or 1)
        # longest first would need cost knowledge; non-orthogonal double nulls dominate
        def cost(t):
            c = t[0]
            o = c.get("options", {})
            k = 1.0
            if not o.get("orthogonal", True):
                k *= 2.5
            if c.get("geom", "") in ("cdn", "udn", "ldn", "udn2", "ldn2", "udn1", "ldn1"):
                k *= 2
            if o.get("psi_interpolation_method") == "dct":
                k *= 4
            k *= 1 + len(c.get("post", []))
            return -k
        todo.sort(key=cost)
        with ThreadPoolExecutor(nproc) as tp:
            list(tp.map(_generate_one, todo))
    return [Artefact(c, p) for c, p in zip(configs, paths)]
