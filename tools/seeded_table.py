#!/usr/bin/env python3
"""Regenerate the table of section 12 of DESIGN.md from seeded/*/meta.json (between the
markers <!-- seeded-table-begin --> and <!-- seeded-table-end -->)."""
import glob, json, os, re

V = os.path.dirname(os.path.dirname(os.path.abspath(__file__)))
rows = ["| id | what it needs to manifest | caught by | run but silent | history |", "|---|---|---|---|---|"]
miss = []
for d in sorted(glob.glob(os.path.join(V, "seeded", "*"))):
    mp = os.path.join(d, "meta.json")
    if not os.path.exists(mp):
        continue
    m = json.load(open(mp))
    sid = os.path.basename(d)
    need = (m.get("needs_to_manifest") or "").replace("|", "/").replace("\n", " ")
    caught = ", ".join(m.get("caught_by") or []) or "-"
    silent = ", ".join(m.get("missed_by") or []) or "-"
    if m["property"] not in (m.get("caught_by") or []):
        miss.append(sid)
    rows.append("| %s | %s | %s | %s | %s |" % (sid, need[:230], caught, silent, "yes" if m.get("history") else ""))
txt = open(os.path.join(V, "DESIGN.md")).read()
block = "<!-- seeded-table-begin -->\n" + "\n".join(rows) + "\n\nTarget check silent (miss): %s\n<!-- seeded-table-end -->" % (", ".join(miss) or "none")
if "<!-- seeded-table-begin -->" in txt:
    txt = re.sub(r"<!-- seeded-table-begin -->.*<!-- seeded-table-end -->", lambda _: block, txt, flags=re.S)
    open(os.path.join(V, "DESIGN.md"), "w").write(txt)
    print("table rewritten: %d rows, misses: %s" % (len(rows) - 2, miss))
else:
    print(block)
