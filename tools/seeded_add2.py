#!/usr/bin/env python3
"""Register a confirmed second-wave seeded defect:
    seeded_add2.py <Cxx> <mN> "<needs to manifest>" ["<history>"]
Reads /tmp/mut2_<Cxx>_out/<mN>/{patch.diff,demo.py,notes.md}, the first evaluation
/tmp/muteval/w2_<Cxx>_<mN>.json (tests + demo + checks) and, if present, the re-evaluations
/tmp/muteval/w2b_<Cxx>_<mN>*.json made after the machinery was strengthened (checks only)."""
import glob, json, os, shutil, sys

W = os.environ.get("WAVE", "2")  # wave number: /tmp/mut<W>_<Cxx>_out, /tmp/muteval/w<W>[b]_<Cxx>_<mN>.json
pid, name, need = sys.argv[1], sys.argv[2], sys.argv[3]
history = sys.argv[4] if len(sys.argv) > 4 else ""
src = "/tmp/mut%s_%s_out/%s" % (W, pid, name)
ev = json.load(open("/tmp/muteval/w%s_%s_%s.json" % (W, pid, name)))
ok = (ev.get("demo_without_patch_exit") == 0 and ev.get("demo_with_patch_exit") == 1
      and "passed" in (ev.get("tests_tail") or "") and "failed" not in (ev.get("tests_tail") or ""))
if not ok:
    print("NOT CONFIRMED:", {k: ev.get(k) for k in ("demo_without_patch_exit", "demo_with_patch_exit", "tests_tail")})
    sys.exit(1)
first = {k: dict(exit=v["exit"], violations=v["violations"], first_signatures=v["signatures"][:3])
         for k, v in ev.get("checks", {}).items()}
final = dict(first)
for f in sorted(glob.glob("/tmp/muteval/w%sb_%s_%s*.json" % (W, pid, name))):
    try:
        e2 = json.load(open(f))
    except Exception:
        continue
    for k, v in e2.get("checks", {}).items():
        final[k] = dict(exit=v["exit"], violations=v["violations"], first_signatures=v["signatures"][:3])
dst = os.path.join(os.path.dirname(os.path.dirname(os.path.abspath(__file__))), "seeded", "%s-w%s%s" % (pid, W, name))
os.makedirs(dst, exist_ok=True)
for f in ("patch.diff", "demo.py", "notes.md"):
    if os.path.exists(os.path.join(src, f)):
        shutil.copy(os.path.join(src, f), dst)
missed_first = sorted(k for k, v in first.items() if v["exit"] == 0 and final[k]["exit"] == 1)
if missed_first and not history:
    history = "missed at first by %s; caught after the machinery was strengthened" % ", ".join(missed_first)
meta = dict(
    property=pid, wave=int(W),
    origin="independent sub-agent given only the property text, the list of earlier seeded changes and a scratch worktree",
    needs_to_manifest=need,
    confirmed_by=dict(
        how="tools/mutant_eval.py in a scratch worktree of /repo HEAD: repository test-suite with the patch, demo.py without and with the patch, then the listed checks with VERIF_REPO pointing at the patched tree",
        tests_with_patch=ev.get("tests_tail"), demo_exit_without_patch=ev.get("demo_without_patch_exit"),
        demo_exit_with_patch=ev.get("demo_with_patch_exit")),
    checks_first_run=first, checks_run=final,
    caught_by=sorted(k for k, v in final.items() if v["exit"] == 1),
    missed_by=sorted(k for k, v in final.items() if v["exit"] == 0),
    history=history,
)
json.dump(meta, open(os.path.join(dst, "meta.json"), "w"), indent=1)
print("registered", dst, "caught_by", meta["caught_by"], "missed_by", meta["missed_by"], "| history:", history)
