#!/usr/bin/env python3
"""Re-run, for every registered seeded change, the checks that are recorded as catching it
(plus its target property's check) against the current machinery and the current /repo HEAD:

    python3 tools/seeded_sweep.py [--jobs 3] [--only C05-m1,C08-w2m2] [--tier quick]

Uses tools/mutant_eval.py (scratch worktree, VERIF_REPO redirect; /repo itself is untouched),
updates seeded/<id>/meta.json (checks_run, caught_by, missed_by, last_sweep) and prints one
line per change.  Exit 1 if a change is no longer caught by the check of its own property."""
import argparse, glob, json, os, subprocess, sys, time
from concurrent.futures import ThreadPoolExecutor

V = os.path.dirname(os.path.dirname(os.path.abspath(__file__)))


def one(sid, tier):
    d = os.path.join(V, "seeded", sid)
    meta = json.load(open(os.path.join(d, "meta.json")))
    checks = sorted(set(meta.get("caught_by") or []) | {meta["property"]})
    t0 = time.time()
    p = subprocess.run([sys.executable, os.path.join(V, "tools", "mutant_eval.py"), os.path.join(d, "patch.diff"),
                        "--checks", ",".join(checks), "--tier", tier], capture_output=True, text=True)
    try:
        out = json.loads(p.stdout[p.stdout.index("{"):])
    except Exception:  # noqa: BLE001
        return sid, None, "mutant_eval failed: " + (p.stdout + p.stderr)[-300:]
    cr = dict(meta.get("checks_run") or {})
    for k, v in out.get("checks", {}).items():
        cr[k] = dict(exit=v["exit"], violations=v["violations"], first_signatures=v["signatures"][:3])
        if v.get("harness_error"):
            cr[k]["harness_error"] = True
    meta["checks_run"] = cr
    meta["caught_by"] = sorted(k for k, v in cr.items() if v["exit"] == 1)
    meta["missed_by"] = sorted(k for k, v in cr.items() if v["exit"] != 1)
    meta["last_sweep"] = dict(utc=time.strftime("%Y-%m-%dT%H:%M:%SZ", time.gmtime()), tier=tier,
                              repo_head=subprocess.run(["git", "-C", "/repo", "rev-parse", "--short", "HEAD"],
                                                       capture_output=True, text=True).stdout.strip(),
                              checks=checks, wall_s=round(time.time() - t0))
    json.dump(meta, open(os.path.join(d, "meta.json"), "w"), indent=1)
    return sid, meta, None


def main():
    ap = argparse.ArgumentParser()
    ap.add_argument("--jobs", type=int, default=3)
    ap.add_argument("--only", default="")
    ap.add_argument("--tier", default="quick")
    a = ap.parse_args()
    ids = sorted(os.path.basename(p) for p in glob.glob(os.path.join(V, "seeded", "*")) if os.path.exists(os.path.join(p, "meta.json")))
    if a.only:
        ids = [i for i in ids if i in a.only.split(",")]
    bad = 0
    with ThreadPoolExecutor(a.jobs) as tp:
        for sid, meta, err in tp.map(lambda s: one(s, a.tier), ids):
            if err:
                print("%-10s ERROR %s" % (sid, err), flush=True)
                bad += 1
                continue
            target_ok = meta["property"] in meta["caught_by"]
            herr = [k for k, v in meta["checks_run"].items() if v.get("harness_error")]
            print("%-10s target %s %-7s caught_by=%s missed_by=%s%s" % (
                sid, meta["property"], "CAUGHT" if target_ok else "MISSED", meta["caught_by"], meta["missed_by"],
                (" HARNESS-ERROR in %s" % herr) if herr else ""), flush=True)
            if not target_ok:
                bad += 1
    return 1 if bad else 0


if __name__ == "__main__":
    sys.exit(main())
