#!/usr/bin/env python3
"""Register a confirmed seeded defect: seeded_add.py <Cxx> <mN> [--origin agent|own]
Reads /tmp/mut_<Cxx>_out/<mN>/{patch.diff,demo.py,notes.md} and /tmp/muteval/<Cxx>_<mN>.json"""
import json, os, shutil, sys

pid, name = sys.argv[1], sys.argv[2]
src = "/tmp/mut_%s_out/%s" % (pid, name)
ev = json.load(open("/tmp/muteval/%s_%s.json" % (pid, name)))
ok = ev.get("demo_without_patch_exit") == 0 and ev.get("demo_with_patch_exit") == 1 and "passed" in (ev.get("tests_tail") or "") and "failed" not in (ev.get("tests_tail") or "")
if not ok:
    print("NOT CONFIRMED:", {k: ev.get(k) for k in ("demo_without_patch_exit", "demo_with_patch_exit", "tests_tail")})
    sys.exit(1)
dst = os.path.join(os.path.dirname(os.path.dirname(os.path.abspath(__file__))), "seeded", "%s-%s" % (pid, name))
os.makedirs(dst, exist_ok=True)
for f in ("patch.diff", "demo.py", "notes.md"):
    if os.path.exists(os.path.join(src, f)):
        shutil.copy(os.path.join(src, f), dst)
notes = open(os.path.join(src, "notes.md")).read() if os.path.exists(os.path.join(src, "notes.md")) else ""
meta_path = os.path.join(dst, "meta.json")
old = json.load(open(meta_path)) if os.path.exists(meta_path) else {}
meta = dict(
    property=pid,
    origin="independent sub-agent given only the property text and a scratch worktree",
    needs_to_manifest=old.get("needs_to_manifest", ""),
    confirmed_by=dict(
        how="tools/mutant_eval.py in a scratch worktree of /repo HEAD: repository test-suite with the patch, demo.py without and with the patch, then the listed checks with VERIF_REPO pointing at the patched tree",
        tests_with_patch=ev.get("tests_tail"),
        demo_exit_without_patch=ev.get("demo_without_patch_exit"),
        demo_exit_with_patch=ev.get("demo_with_patch_exit"),
    ),
    checks_run={k: dict(exit=v["exit"], violations=v["violations"], first_signatures=v["signatures"][:3]) for k, v in ev.get("checks", {}).items()},
    caught_by=sorted(k for k, v in ev.get("checks", {}).items() if v["exit"] == 1),
    missed_by=sorted(k for k, v in ev.get("checks", {}).items() if v["exit"] == 0),
)
meta.update({k: v for k, v in old.items() if k in ("needs_to_manifest", "history")})
json.dump(meta, open(meta_path, "w"), indent=1)
print("registered", dst, "caught_by", meta["caught_by"], "missed_by", meta["missed_by"])
