#!/usr/bin/env python3
"""Evaluate a seeded defect in a scratch worktree (never in /repo):

    python3 tools/mutant_eval.py <patch.diff> --checks C05,C06 [--demo demo.py] [--tests] [--tier quick]

Creates /tmp/mw_<hash> (git worktree of /repo HEAD), applies the patch, optionally runs the
repository's test-suite and the demonstration (with and without the patch), runs the listed
checks against the patched tree (VERIF_REPO/PYTHONPATH redirect the harness; evidence and
replays go to a scratch directory), prints one line per check and removes the worktree.
"""
import argparse, hashlib, json, os, shutil, subprocess, sys, time

VERIF = os.path.dirname(os.path.dirname(os.path.abspath(__file__)))
PY = "/venv/bin/python"


class R:
    pass


def sh(cmd, timeout=None, **kw):
    """run in its own session with output to a file (a demo may leave orphan worker processes
    holding a pipe open); kill the whole process group afterwards"""
    import signal
    import tempfile

    with tempfile.TemporaryFile("w+") as f:
        p = subprocess.Popen(cmd, stdout=f, stderr=subprocess.STDOUT, start_new_session=True, **kw)
        try:
            rc = p.wait(timeout=timeout)
        except subprocess.TimeoutExpired:
            rc = -9
        try:
            os.killpg(p.pid, signal.SIGKILL)
        except (ProcessLookupError, PermissionError):
            pass
        p.wait()
        f.seek(0)
        r = R()
        r.returncode = rc
        r.stdout = f.read()
    return r


def main():
    ap = argparse.ArgumentParser()
    ap.add_argument("patch")
    ap.add_argument("--checks", default="")
    ap.add_argument("--demo", default=None)
    ap.add_argument("--tests", action="store_true")
    ap.add_argument("--tier", default="quick")
    ap.add_argument("--keep", action="store_true")
    a = ap.parse_args()
    patch = os.path.abspath(a.patch)
    h = hashlib.sha1(open(patch, "rb").read()).hexdigest()[:10]
    wt = "/tmp/mw_" + h
    out = {"patch": patch, "worktree": wt}
    sh(["git", "-C", "/repo", "worktree", "remove", "--force", wt])
    r = sh(["git", "-C", "/repo", "worktree", "add", "-f", wt, "HEAD"])
    if r.returncode:
        print(r.stdout)
        return 2
    try:
        env = dict(os.environ, MPLBACKEND="Agg", PYTHONPATH=wt, VERIF_REPO=wt)
        if a.demo:
            r0 = sh([PY, os.path.abspath(a.demo)], env=env, cwd="/tmp", timeout=1800)
            out["demo_without_patch_exit"] = r0.returncode
        r = sh(["git", "-C", wt, "apply", patch])
        if r.returncode:
            print("patch does not apply:", r.stdout)
            return 2
        if a.demo:
            r1 = sh([PY, os.path.abspath(a.demo)], env=env, cwd="/tmp", timeout=1800)
            out["demo_with_patch_exit"] = r1.returncode
            out["demo_with_patch_tail"] = r1.stdout[-600:]
        if a.tests:
            t0 = time.time()
            r = sh([PY, "-m", "pytest", "-q", "-p", "no:cacheprovider", "--timeout=900", "-n", "6", "hypnotoad"], env=env, cwd=wt)
            out["tests_tail"] = r.stdout.strip().splitlines()[-1] if r.stdout.strip() else ""
            out["tests_exit"] = r.returncode
            out["tests_wall"] = round(time.time() - t0)
        ev = "/tmp/mw_ev_" + h
        os.makedirs(ev, exist_ok=True)
        env2 = dict(env, VERIF_EVIDENCE_DIR=ev, VERIF_REPLAY_DIR=ev + "/replays", VERIF_TIER=a.tier)
        out["checks"] = {}
        for c in [c for c in a.checks.split(",") if c]:
            t0 = time.time()
            r = sh([PY, os.path.join(VERIF, "vcheck.py"), c, "--tier", a.tier], env=env2, cwd=VERIF)
            lines = r.stdout.splitlines()
            sigs = [l.strip()[len("signature: "):] for l in lines if l.strip().startswith("signature:")]
            out["checks"][c] = dict(exit=r.returncode, wall=round(time.time() - t0),
                                    violations=sum(l.startswith("VIOLATION") for l in lines),
                                    harness_error=any("HARNESS-ERROR" in l for l in lines), signatures=sigs[:4])
            if out["checks"][c]["harness_error"]:
                out["checks"][c]["tail"] = r.stdout[-800:]
        shutil.rmtree(ev, ignore_errors=True)
    finally:
        if not a.keep:
            sh(["git", "-C", "/repo", "worktree", "remove", "--force", wt])
    print(json.dumps(out, indent=1))
    return 0


if __name__ == "__main__":
    sys.exit(main())
